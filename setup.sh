#!/bin/bash
# Builds the verification framework from files on disk only (offline).
set -e
cd "$(dirname "$0")"
export CARGO_NET_OFFLINE=true
mkdir -p .cache evidence/replay
# 1. the fact extractor (rustc_private driver, nightly, zero cargo dependencies)
( cd extractor && cargo build --release --offline 2>&1 | tail -3 )
# 2. warm the dependency graph of zinoma under the nightly check profile (shared target dir)
tools/extract.sh /repo .cache/facts-setup.json zinoma || { echo "setup: extraction over /repo failed" >&2; exit 1; }
rm -f .cache/facts-setup.json
echo "setup ok"
