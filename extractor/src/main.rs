#![feature(rustc_private)]
extern crate rustc_driver;
extern crate rustc_hir;
extern crate rustc_interface;
extern crate rustc_middle;
extern crate rustc_span;
extern crate rustc_abi;
extern crate rustc_data_structures;
extern crate rustc_session;

use rustc_driver::{Callbacks, Compilation};
use rustc_hir::def::DefKind;
use rustc_interface::interface::Compiler;
use rustc_middle::mir::{self, AggregateKind, Operand, Place, ProjectionElem, Rvalue, StatementKind, TerminatorKind};
use rustc_middle::ty::{self, Instance, Ty, TyCtxt};
use std::fmt::Write as _;
use std::cell::RefCell;
use std::collections::HashMap;
use rustc_hir::def_id::LocalDefId;
use rustc_data_structures::steal::Steal;

thread_local! {
    static STORE: RefCell<HashMap<LocalDefId, mir::Body<'static>>> = RefCell::new(HashMap::new());
    static ORDER: RefCell<Vec<LocalDefId>> = RefCell::new(Vec::new());
}
static ORIG_MIR_BUILT: std::sync::OnceLock<for<'tcx> fn(TyCtxt<'tcx>, LocalDefId) -> &'tcx Steal<mir::Body<'tcx>>> = std::sync::OnceLock::new();

fn my_mir_built<'tcx>(tcx: TyCtxt<'tcx>, def: LocalDefId) -> &'tcx Steal<mir::Body<'tcx>> {
    let steal = (ORIG_MIR_BUILT.get().unwrap())(tcx, def);
    let body: mir::Body<'tcx> = steal.borrow().clone();
    // SAFETY: only read back inside the same compiler session (callbacks below), while 'tcx is alive.
    let body: mir::Body<'static> = unsafe { std::mem::transmute(body) };
    STORE.with(|s| { s.borrow_mut().insert(def, body); });
    ORDER.with(|o| o.borrow_mut().push(def));
    steal
}

fn esc(s: &str) -> String {
    let mut o = String::with_capacity(s.len() + 2);
    o.push('"');
    for c in s.chars() {
        match c {
            '"' => o.push_str("\\\""),
            '\\' => o.push_str("\\\\"),
            '\n' => o.push_str("\\n"),
            '\t' => o.push_str("\\t"),
            '\r' => o.push_str("\\r"),
            c if (c as u32) < 0x20 => { let _ = write!(o, "\\u{:04x}", c as u32); }
            c => o.push(c),
        }
    }
    o.push('"');
    o
}

struct Ex<'a, 'tcx> { tcx: TyCtxt<'tcx>, body: &'a mir::Body<'tcx>, env: ty::TypingEnv<'tcx>, upvar_names: Vec<String> }

impl<'a, 'tcx> Ex<'a, 'tcx> {
    fn tys(&self, t: Ty<'tcx>) -> String { esc(&format!("{}", t)) }

    fn place(&self, p: &Place<'tcx>) -> String {
        let tcx = self.tcx;
        let mut pty = mir::PlaceTy::from_ty(self.body.local_decls[p.local].ty);
        let mut projs: Vec<String> = vec![];
        for elem in p.projection.iter() {
            match elem {
                ProjectionElem::Deref => projs.push("{\"k\":\"deref\"}".into()),
                ProjectionElem::Field(f, _) => {
                    let (owner, name) = match pty.ty.kind() {
                        ty::Adt(adt, _) => {
                            let v = match pty.variant_index { Some(v) => adt.variant(v), None => if adt.is_enum() { adt.variant(rustc_abi::VariantIdx::from_u32(0)) } else { adt.non_enum_variant() } };
                            (tcx.def_path_str(adt.did()), v.fields[f].name.to_string())
                        }
                        ty::Closure(did, _) | ty::Coroutine(did, _) | ty::CoroutineClosure(did, _) => {
                            let names: Vec<String> = if did.is_local() { tcx.closure_saved_names_of_captured_variables(*did).iter().map(|s| s.to_string()).collect() } else { vec![] };
                            let n = names.get(f.index()).cloned().unwrap_or_else(|| format!("upvar{}", f.index()));
                            (format!("{{env of {}}}", tcx.def_path_str(*did)), n)
                        }
                        ty::Tuple(_) => ("(tuple)".into(), format!("{}", f.index())),
                        _ => ("?".into(), format!("{}", f.index())),
                    };
                    projs.push(format!("{{\"k\":\"field\",\"of\":{},\"name\":{},\"idx\":{}}}", esc(&owner), esc(&name), f.index()));
                }
                ProjectionElem::Downcast(_, v) => {
                    let name = match pty.ty.kind() { ty::Adt(adt, _) => adt.variant(v).name.to_string(), _ => format!("{}", v.index()) };
                    projs.push(format!("{{\"k\":\"downcast\",\"variant\":{}}}", esc(&name)));
                }
                ProjectionElem::Index(l) => projs.push(format!("{{\"k\":\"index\",\"local\":{}}}", l.index())),
                _ => projs.push("{\"k\":\"other\"}".into()),
            }
            pty = pty.projection_ty(tcx, elem);
        }
        format!("{{\"local\":{},\"proj\":[{}],\"ty\":{}}}", p.local.index(), projs.join(","), self.tys(pty.ty))
    }

    fn operand(&self, o: &Operand<'tcx>) -> String {
        match o {
            Operand::Copy(p) => format!("{{\"k\":\"copy\",\"place\":{}}}", self.place(p)),
            Operand::Move(p) => format!("{{\"k\":\"move\",\"place\":{}}}", self.place(p)),
            Operand::Constant(c) => {
                let ty = c.const_.ty();
                let mut extra = String::new();
                if let ty::FnDef(did, args) = ty.kind() {
                    let _ = write!(extra, ",\"fn\":{}", esc(&self.tcx.def_path_str_with_args(*did, args)));
                }
                if let mir::Const::Unevaluated(uv, _) = c.const_ {
                    let _ = write!(extra, ",\"def\":{}", esc(&self.tcx.def_path_str(uv.def)));
                }
                if let Some(sdid) = c.check_static_ptr(self.tcx) {
                    let _ = write!(extra, ",\"static\":{}", esc(&self.tcx.def_path_str(sdid)));
                }
                format!("{{\"k\":\"const\",\"ty\":{},\"val\":{}{}}}", self.tys(ty), esc(&format!("{}", c.const_)), extra)
            }
            #[allow(unreachable_patterns)]
            _ => "{\"k\":\"other\"}".into(),
        }
    }

    fn rvalue(&self, rv: &Rvalue<'tcx>) -> String {
        let tcx = self.tcx;
        match rv {
            Rvalue::Use(o, _) => format!("{{\"k\":\"use\",\"op\":{}}}", self.operand(o)),
            Rvalue::Ref(_, bk, p) => format!("{{\"k\":\"ref\",\"mut\":{},\"place\":{}}}", matches!(bk, mir::BorrowKind::Mut { .. }), self.place(p)),
            Rvalue::RawPtr(_, p) => format!("{{\"k\":\"rawptr\",\"place\":{}}}", self.place(p)),
            Rvalue::CopyForDeref(p) => format!("{{\"k\":\"use\",\"op\":{{\"k\":\"copy\",\"place\":{}}}}}", self.place(p)),
            Rvalue::Discriminant(p) => format!("{{\"k\":\"discr\",\"place\":{}}}", self.place(p)),
            Rvalue::BinaryOp(op, ab) => format!("{{\"k\":\"binop\",\"op\":{},\"a\":{},\"b\":{}}}", esc(&format!("{:?}", op)), self.operand(&ab.0), self.operand(&ab.1)),
            Rvalue::UnaryOp(op, a) => format!("{{\"k\":\"unop\",\"op\":{},\"a\":{}}}", esc(&format!("{:?}", op)), self.operand(a)),
            Rvalue::Cast(_, o, t) => format!("{{\"k\":\"cast\",\"op\":{},\"to\":{}}}", self.operand(o), self.tys(*t)),
            Rvalue::Aggregate(kind, ops) => {
                let opsj: Vec<String> = ops.iter().map(|o| self.operand(o)).collect();
                let (what, names): (String, Vec<String>) = match &**kind {
                    AggregateKind::Tuple => ("\"tuple\":true".into(), vec![]),
                    AggregateKind::Array(_) => ("\"array\":true".into(), vec![]),
                    AggregateKind::Adt(did, vidx, _, _, _) => {
                        let adt = tcx.adt_def(*did);
                        let v = adt.variant(*vidx);
                        (format!("\"adt\":{},\"variant\":{}", esc(&tcx.def_path_str(*did)), esc(&v.name.to_string())), v.fields.iter().map(|f| f.name.to_string()).collect())
                    }
                    AggregateKind::Closure(did, _) => (format!("\"closure\":{}", esc(&tcx.def_path_str(*did))), if did.is_local() { tcx.closure_saved_names_of_captured_variables(*did).iter().map(|s| s.to_string()).collect() } else { vec![] }),
                    AggregateKind::Coroutine(did, _) => (format!("\"coroutine\":{}", esc(&tcx.def_path_str(*did))), if did.is_local() { tcx.closure_saved_names_of_captured_variables(*did).iter().map(|s| s.to_string()).collect() } else { vec![] }),
                    AggregateKind::CoroutineClosure(did, _) => (format!("\"closure\":{}", esc(&tcx.def_path_str(*did))), vec![]),
                    _ => ("\"otheragg\":true".into(), vec![]),
                };
                let namesj: Vec<String> = names.iter().map(|n| esc(n)).collect();
                format!("{{\"k\":\"agg\",{},\"fields\":[{}],\"ops\":[{}]}}", what, namesj.join(","), opsj.join(","))
            }
            other => format!("{{\"k\":\"other\",\"dbg\":{}}}", esc(&format!("{:?}", other).chars().take(200).collect::<String>())),
        }
    }

    fn span(&self, sp: rustc_span::Span) -> String {
        let sm = self.tcx.sess.source_map();
        let outer = sp.source_callsite();
        let lo = sm.lookup_char_pos(outer.lo());
        let hi = sm.lookup_char_pos(outer.hi());
        let f = format!("{}", lo.file.name.prefer_local_unconditionally());
        format!("{{\"file\":{},\"lo\":{},\"hi\":{},\"exp\":{}}}", esc(&f), lo.line, hi.line, sp.from_expansion())
    }
}

struct Cb;

impl Callbacks for Cb {
    fn config(&mut self, config: &mut rustc_interface::interface::Config) {
        config.override_queries = Some(|_sess, providers| {
            let _ = ORIG_MIR_BUILT.set(providers.queries.mir_built);
            providers.queries.mir_built = my_mir_built;
        });
    }
    fn after_analysis<'tcx>(&mut self, _c: &Compiler, tcx: TyCtxt<'tcx>) -> Compilation {
        let krate = tcx.crate_name(rustc_hir::def_id::LOCAL_CRATE);
        let wanted = std::env::var("ZF_CRATE").unwrap_or_else(|_| "zinoma".to_string());
        if krate.as_str() != wanted { return Compilation::Continue; }
        let out_path = match std::env::var("ZF_OUT") { Ok(p) => p, Err(_) => return Compilation::Continue };
        let mut out = String::new();
        let nonce = std::env::var("ZF_NONCE").unwrap_or_default();
        let _ = write!(out, "{{\"crate\":{},\"nonce\":{},\"rustc\":{},\"test_harness\":{},\"debug_assertions\":{},\n", esc(krate.as_str()), esc(&nonce), esc(&rustc_interface::util::rustc_version_str().unwrap_or("?").to_string()), tcx.sess.is_test_crate(), tcx.sess.opts.debug_assertions);
        // ---- ADTs and trait impls of the crate
        out.push_str("\"adts\":[");
        let mut af = true;
        let mut impls: Vec<String> = vec![];
        for ldid in tcx.hir_crate_items(()).definitions() {
            let did = ldid.to_def_id();
            match tcx.def_kind(did) {
                DefKind::Struct | DefKind::Enum | DefKind::Union => {
                    let adt = tcx.adt_def(did);
                    let mut vs = vec![];
                    for v in adt.variants().iter() {
                        let fs: Vec<String> = v.fields.iter().map(|f| format!("{{\"name\":{},\"ty\":{}}}", esc(&f.name.to_string()), esc(&format!("{}", tcx.type_of(f.did).instantiate_identity().skip_norm_wip())))).collect();
                        vs.push(format!("{{\"name\":{},\"fields\":[{}]}}", esc(&v.name.to_string()), fs.join(",")));
                    }
                    if !af { out.push_str(",\n"); }
                    af = false;
                    let sp = tcx.def_span(did);
                    let lo = tcx.sess.source_map().lookup_char_pos(sp.source_callsite().lo());
                    let _ = write!(out, "{{\"path\":{},\"enum\":{},\"file\":{},\"line\":{},\"exp\":{},\"variants\":[{}]}}", esc(&tcx.def_path_str(did)), adt.is_enum(), esc(&format!("{}", lo.file.name.prefer_local_unconditionally())), lo.line, sp.from_expansion(), vs.join(","));
                }
                DefKind::Impl { of_trait: true } => {
                    let tr = tcx.impl_trait_ref(did).instantiate_identity().skip_norm_wip();
                    let sp = tcx.def_span(did);
                    let lo = tcx.sess.source_map().lookup_char_pos(sp.source_callsite().lo());
                    impls.push(format!("{{\"trait\":{},\"self\":{},\"derived\":{},\"file\":{},\"line\":{},\"path\":{}}}", esc(&tcx.def_path_str(tr.def_id)), esc(&format!("{}", tr.self_ty())), tcx.is_automatically_derived(did), esc(&format!("{}", lo.file.name.prefer_local_unconditionally())), lo.line, esc(&tcx.def_path_str(did))));
                }
                _ => {}
            }
        }
        let _ = write!(out, "],\n\"impls\":[{}],\n\"bodies\":[\n", impls.join(",\n"));
        let mut first = true;
        // Bodies were captured by the mir_built provider override as they were built.
        let mut snap = vec![];
        let mut missing = 0usize;
        for def in tcx.hir_body_owners() {
            let kind = tcx.def_kind(def);
            if matches!(kind, DefKind::AnonConst | DefKind::InlineConst) { continue; }
            let is_item_const = matches!(kind, DefKind::Const { .. } | DefKind::AssocConst { .. } | DefKind::Static { .. });
            let got: Option<mir::Body<'static>> = STORE.with(|s| s.borrow_mut().remove(&def));
            match got {
                Some(b) => { let b: mir::Body<'tcx> = unsafe { std::mem::transmute(b) }; snap.push((def, kind, b)); }
                None => { if !is_item_const { eprintln!("ZF-MISSING {} {:?}", tcx.def_path_str(def.to_def_id()), kind); missing += 1; } }
            }
        }
        for (def, kind, body) in snap.iter() {
            let def = *def; let kind = *kind;
            let did = def.to_def_id();
            let env = ty::TypingEnv::post_analysis(tcx, did);
            let upvar_names: Vec<String> = if matches!(kind, DefKind::Closure) {
                tcx.closure_saved_names_of_captured_variables(did).iter().map(|s| s.to_string()).collect()
            } else { vec![] };
            let ex = Ex { tcx, body, env, upvar_names };
            if !first { out.push_str(",\n"); }
            first = false;
            let parent = if matches!(kind, DefKind::Closure) { tcx.def_path_str(tcx.local_parent(def).to_def_id()) } else { String::new() };
            let cor = match tcx.coroutine_kind(did) { Some(k) => format!("{:?}", k), None => String::new() };
            let _ = write!(out, "{{\"def\":{},\"kind\":{},\"parent\":{},\"coroutine\":{},\"span\":{},\"argc\":{},\"ret\":{},\n \"upvars\":[{}],\n \"locals\":[",
                esc(&tcx.def_path_str(did)), esc(&format!("{:?}", kind)), esc(&parent), esc(&cor), ex.span(body.span), body.arg_count, ex.tys(body.return_ty()),
                ex.upvar_names.iter().map(|n| esc(n)).collect::<Vec<_>>().join(","));
            // local names from debuginfo
            let mut names: Vec<Option<String>> = vec![None; body.local_decls.len()];
            for vdi in &body.var_debug_info {
                if let mir::VarDebugInfoContents::Place(p) = &vdi.value {
                    if p.projection.is_empty() { names[p.local.index()] = Some(vdi.name.to_string()); }
                }
            }
            let mut lf = true;
            for (l, d) in body.local_decls.iter_enumerated() {
                if !lf { out.push(','); }
                lf = false;
                let _ = write!(out, "{{\"ty\":{},\"name\":{}}}", ex.tys(d.ty), match &names[l.index()] { Some(n) => esc(n), None => "null".into() });
            }
            out.push_str("],\n \"blocks\":[");
            let mut bf = true;
            for (bb, data) in body.basic_blocks.iter_enumerated() {
                if !bf { out.push_str(",\n  "); }
                bf = false;
                let _ = write!(out, "{{\"id\":{},\"cleanup\":{},\"stmts\":[", bb.index(), data.is_cleanup);
                let mut sf = true;
                let mut discr_of: Option<(mir::Local, Place<'tcx>)> = None;
                for st in &data.statements {
                    if let StatementKind::Assign(b) = &st.kind {
                        let (place, rv) = &**b;
                        if let Rvalue::Discriminant(p) = rv { if place.projection.is_empty() { discr_of = Some((place.local, *p)); } }
                        if !sf { out.push(','); }
                        sf = false;
                        let _ = write!(out, "{{\"lhs\":{},\"rv\":{},\"line\":{}}}", ex.place(place), ex.rvalue(rv), tcx.sess.source_map().lookup_char_pos(st.source_info.span.source_callsite().lo()).line);
                    }
                }
                out.push_str("],\"term\":");
                let term = data.terminator();
                let line = tcx.sess.source_map().lookup_char_pos(term.source_info.span.source_callsite().lo()).line;
                let exp = term.source_info.span.from_expansion();
                match &term.kind {
                    TerminatorKind::Goto { target } => { let _ = write!(out, "{{\"k\":\"goto\",\"target\":{}}}", target.index()); }
                    TerminatorKind::FalseEdge { real_target, .. } => { let _ = write!(out, "{{\"k\":\"goto\",\"target\":{}}}", real_target.index()); }
                    TerminatorKind::FalseUnwind { real_target, .. } => { let _ = write!(out, "{{\"k\":\"goto\",\"target\":{}}}", real_target.index()); }
                    TerminatorKind::Return => out.push_str("{\"k\":\"return\"}"),
                    TerminatorKind::Unreachable => out.push_str("{\"k\":\"unreachable\"}"),
                    TerminatorKind::UnwindResume | TerminatorKind::UnwindTerminate(_) => out.push_str("{\"k\":\"resume\"}"),
                    TerminatorKind::CoroutineDrop => out.push_str("{\"k\":\"cordrop\"}"),
                    TerminatorKind::Drop { place, target, .. } => { let _ = write!(out, "{{\"k\":\"drop\",\"place\":{},\"target\":{}}}", ex.place(place), target.index()); }
                    TerminatorKind::Assert { cond, expected, target, msg, .. } => { let _ = write!(out, "{{\"k\":\"assert\",\"cond\":{},\"expected\":{},\"target\":{},\"msg\":{},\"line\":{}}}", ex.operand(cond), expected, target.index(), esc(&format!("{:?}", msg).chars().take(80).collect::<String>()), line); }
                    TerminatorKind::Yield { value, resume, drop, .. } => { let _ = write!(out, "{{\"k\":\"yield\",\"value\":{},\"resume\":{},\"drop\":{}}}", ex.operand(value), resume.index(), match drop { Some(d) => d.index() as i64, None => -1 }); }
                    TerminatorKind::SwitchInt { discr, targets } => {
                        let dty = discr.ty(&body.local_decls, tcx);
                        let mut ann = String::new();
                        if dty.is_bool() { ann.push_str(",\"bool\":true"); }
                        if let (Some((dl, src)), Some(p)) = (discr_of, discr.place()) {
                            if p.projection.is_empty() && p.local == dl {
                                let sty = src.ty(&body.local_decls, tcx).ty;
                                let _ = write!(ann, ",\"on\":{}", ex.place(&src));
                                if let ty::Adt(adt, args) = sty.kind() {
                                    if adt.is_enum() {
                                        let mut vs = vec![];
                                        for (vidx, d) in adt.discriminants(tcx) {
                                            let v = adt.variant(vidx);
                                            let ftys: Vec<String> = v.fields.iter().map(|f| esc(&format!("{}", f.ty(tcx, args)))).collect();
                                            vs.push(format!("{{\"val\":{},\"name\":{},\"ftys\":[{}]}}", d.val, esc(&v.name.to_string()), ftys.join(",")));
                                        }
                                        let _ = write!(ann, ",\"adt\":{},\"variants\":[{}]", esc(&tcx.def_path_str(adt.did())), vs.join(","));
                                    }
                                }
                            }
                        }
                        let ts: Vec<String> = targets.iter().map(|(v, t)| format!("[{},{}]", v, t.index())).collect();
                        let _ = write!(out, "{{\"k\":\"switch\",\"discr\":{},\"targets\":[{}],\"otherwise\":{}{},\"line\":{}}}", ex.operand(discr), ts.join(","), targets.otherwise().index(), ann, line);
                    }
                    TerminatorKind::Call { func, args, destination, target, .. } => {
                        let fty = func.ty(&body.local_decls, tcx);
                        let mut callee = String::from("null");
                        if let ty::FnDef(fdid, fargs) = fty.kind() {
                            let declared = tcx.def_path_str_with_args(*fdid, fargs);
                            let resolved = Instance::try_resolve(tcx, ex.env, *fdid, fargs).ok().flatten();
                            let (rpath, rbase, rlocal) = match resolved {
                                Some(i) => (tcx.def_path_str_with_args(i.def_id(), i.args), tcx.def_path_str(i.def_id()), i.def_id().is_local()),
                                None => (String::new(), String::new(), false),
                            };
                            let gargs: Vec<String> = fargs.iter().map(|a| esc(&format!("{}", a))).collect();
                            callee = format!("{{\"declared\":{},\"base\":{},\"resolved\":{},\"rbase\":{},\"local\":{},\"gargs\":[{}]}}", esc(&declared), esc(&tcx.def_path_str(*fdid)), esc(&rpath), esc(&rbase), rlocal, gargs.join(","));
                        }
                        let aj: Vec<String> = args.iter().map(|a| ex.operand(&a.node)).collect();
                        let _ = write!(out, "{{\"k\":\"call\",\"callee\":{},\"func\":{},\"args\":[{}],\"dest\":{},\"target\":{},\"line\":{},\"exp\":{}}}", callee, ex.operand(func), aj.join(","), ex.place(destination), match target { Some(t) => t.index() as i64, None => -1 }, line, exp);
                    }
                    other => { let _ = write!(out, "{{\"k\":\"other\",\"dbg\":{}}}", esc(&format!("{:?}", other).chars().take(120).collect::<String>())); }
                }
                out.push('}');
            }
            out.push_str("]}");
        }
        let _ = write!(out, "\n],\"missing_bodies\":{}}}\n", missing);
        std::fs::write(&out_path, out).expect("write facts");
        Compilation::Continue
    }
}

fn main() {
    let mut args: Vec<String> = std::env::args().collect();
    args.remove(1);
    rustc_driver::run_compiler(&args, &mut Cb);
}
