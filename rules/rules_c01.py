"""C01 - a target never starts before all dependencies are ready (also serves C06, C08, C13, C20 through shared rules)."""
from common import *
from engine import rule, AnchorLost


def readiness_guard(r, actor):
    """blocks of the actor dominated by the true edge of readiness_predicate(helper, K)"""
    names = {b.name for b in r.readiness_predicates()}
    return guard_region(actor, desc_is_call(lambda n: n in names), True)


def start_sites(r, actor):
    """(bb, term, what) of every site in the actor body that starts work: creation of the script future, call of the
    incremental runner, call of a local function that reaches a process spawn"""
    f = r.f
    spawn_bodies = {b.name for (b, bb, t) in r.spawn_raw()}
    incr = {r.fn_of(b).name for b in r.incremental_runners()}
    out = []
    for bb, t in actor.calls():
        c = t["callee"]
        n = c["rbase"] or c["base"]
        if not c["local"] and n not in f.bodies:
            if is_process_spawn(c["base"]):
                out.append((bb, t, "process spawn"))
            continue
        if n in incr:
            out.append((bb, t, "incremental runner"))
            continue
        if n in f.bodies and f.bodies[n].coroutine and actor.name != n:
            # a poll of a local async body is not a start site (the start is where the future was created)
            continue
        reach = f.cg.reach([n], cross_spawn=False)
        if reach & spawn_bodies:
            out.append((bb, t, "reaches process spawn: " + short(sorted(reach & spawn_bodies)[0])))
    return out


@rule("C01.START-GUARD", ["C01"], """every start site in an actor body (script future creation, incremental runner call,
      call reaching a process spawn) lies in the true region of the readiness predicate of that actor""", "K1", floor=2)
def start_guard(ctx):
    r = ctx.r
    ctx.need(r.readiness_predicates(), "readiness predicate fn(&TargetActorHelper, ExecutionKind) -> bool")
    for a in r.actors():
        ss = start_sites(r, a)
        if not r.actor_kinds(a):
            # an actor that never consults the readiness predicate must not start anything
            for (bb, t, what) in ss:
                ctx.bad(f"{r.actor_label(a)}/{short(callee_base(t))}", [site(a, bb)], f"start site ({what}) in an actor that never evaluates the readiness predicate")
            continue
        G = readiness_guard(r, a)
        # the service stop on exit paths also reaches process APIs but starts nothing: only spawn-reaching callees count
        for (bb, t, what) in ss:
            ctx.check(bb in G, f"{r.actor_label(a)}/{short(callee_base(t))}", [site(a, bb)],
                      f"start site ({what}) is reachable without passing the true edge of the readiness predicate")


@rule("C01.READY-PRED", ["C01", "C11", "C07"], """the readiness predicate returns true only on paths on which: to_execute was read true,
      requesters[kind] is non-empty, unavailable_dependencies[Build] is empty and unavailable_dependencies[Service] is empty""", "K2", floor=4)
def ready_pred(ctx):
    r = ctx.r
    ctx.need(r.readiness_predicates(), "readiness predicate")
    is_empty = lambda n: n.endswith("::is_empty")

    def on_field(field, kind=None):
        def ap(args):
            if not args:
                return False
            at = args[0]
            if not atom_has_field(at, field, "TargetActorHelper"):
                return False
            if kind is not None and kind not in atom_aggs(at, "ExecutionKind"):
                return False
            return True
        return ap

    required = [
        ("to_execute=true", desc_is_field_read("to_execute"), True),
        ("requesters[kind].is_empty()=false", desc_is_call(is_empty, on_field("requesters")), False),
        ("unavailable_dependencies[Build].is_empty()=true", desc_is_call(is_empty, on_field("unavailable_dependencies", "Build")), True),
        ("unavailable_dependencies[Service].is_empty()=true", desc_is_call(is_empty, on_field("unavailable_dependencies", "Service")), True),
    ]
    for b in r.readiness_predicates():
        # `unavailable_dependencies.values().all(|set| set.is_empty())`: every kind at once
        def all_kinds_empty(d, b=b):
            if not (d[0] == "call" and re.search(r"Iterator>?::all(::<.*>)?$", d[1]) and d[2] and atom_has_field(d[2][0], "unavailable_dependencies", "TargetActorHelper")
                    and any(c.endswith("::values") or c.endswith("::iter") for c in atom_callres(d[2][0]))):
                return False
            if [c for c in atom_callres(d[2][0]) if re.search(RESTRICTING, c)]:
                return False
            cbs = closure_bodies_passed(b, b.term(d[3]))
            if not cbs:
                return False
            for cb in cbs:
                for p_ in enumerate_paths(cb):
                    ro_ = ret_origins(cb, p_)
                    if not (ro_ and all(o[0] == "call" and o[1].endswith("::is_empty") for o in ro_)):
                        return False
            return True
        required = required[:2] + [(nm, (lambda d, pd=pd: pd(d) or all_kinds_empty(d)), pol) for (nm, pd, pol) in required[2:4]]
        paths = enumerate_paths(b)
        true_paths_ = []
        for p in paths:
            ro = ret_origins(b, p)
            if is_const_ret(ro, "false"):
                continue
            true_paths_.append((p, ro))
        ctx.need(true_paths_, f"a path of {short(b.name)} that can return true")
        for (nm, pd, pol) in required:
            missing = []
            for (p, ro) in true_paths_:
                facts = path_bool_facts(b, p)
                ok = fact_holds(facts, pd, pol)
                if not ok:
                    # the atom may be the returned value itself (last conjunct), possibly negated
                    for o in ro:
                        if o[0] == "call" and pol is True and pd(call_desc(b, o[3], o[2])):
                            ok = True
                        if o[0] == "not" and pol is False and any(x[0] == "call" and pd(call_desc(b, x[3], x[2])) for x in o[1]):
                            ok = True
                        if o[0] == "field" and pol is True and pd(("field", o[1][-1], o[1])):
                            ok = True
                if not ok:
                    missing.append(p)
            ctx.check(not missing, f"{short(b.name)}/{nm}", [b.loc()], props=(["C01", "C11", "C07"] if "Service" in nm else ["C01", "C07"] if "unavailable" in nm else ["C01"]), found=
                      f"{len(missing)} of {len(true_paths_)} true-returning path(s) do not test `{nm}`; e.g. " + (" ".join(repr(e) for e in missing[0][:12]) if missing else ""),
                      detail=f"{len(paths)} paths, {len(true_paths_)} can return true")


@rule("C01.INIT-FULL", ["C01"], """where TargetActorHelper is constructed, unavailable_dependencies receives an entry under
      Build and one under Service, both deriving from the target's declared dependencies""", "K5", floor=2)
def init_full(ctx):
    r = ctx.r
    cons = [(b, s) for (b, s) in r.bodies_constructing("TargetActorHelper")]
    ctx.need(cons, "construction site of TargetActorHelper")
    for (b, sites) in cons:
        for (bb, st) in sites:
            op = agg_field_op(st, "unavailable_dependencies")
            ctx.need(op is not None, "field unavailable_dependencies in the TargetActorHelper constructor")
            ml = operand_local(op)
            # the map local: follow moves back to the HashMap::new result
            srcs = {ml}
            for kind, x, pb in b.prov.direct_producers(ml):
                if kind == "call":
                    srcs.add(x["dest"]["local"])
            found = {}
            for cbb, t in b.calls():
                if not callee_base(t).endswith("HashMap::<K, V, S>::insert") and not re.search(r"HashMap::<.*>::insert$", callee_decl(t)):
                    continue
                recv = t["args"][0]
                rl = operand_local(recv)
                ok_recv = rl is not None and (srcs & _refers_to(b, rl))
                if not ok_recv:
                    continue
                kinds = atom_aggs(b.prov.operand_atoms(t["args"][1]), "ExecutionKind")
                vat = b.prov.operand_atoms(t["args"][2])
                derives = atom_has_field(vat, "dependencies", "TargetMetadata")
                for k in kinds:
                    found[k] = (cbb, derives)
            if not found:
                # second idiom: the map is collected from an iteration over the execution kinds (a constant listing both) paired with the dependency set
                at = b.prov.operand_atoms(op)
                kinds = atom_aggs(at, "ExecutionKind")
                derives = atom_has_field(at, "dependencies", "TargetMetadata")
                collected = any(c.endswith("::collect") or "from_iter" in c for c in atom_callres(at))
                for k in ("Build", "Service"):
                    ctx.check(collected and k in kinds and derives, f"{short(b.name)}/{k}", [b.loc(bb)],
                              f"the map that becomes unavailable_dependencies has no entry for ExecutionKind::{k} deriving from TargetMetadata.dependencies")
                continue
            for k in ("Build", "Service"):
                if k not in found:
                    ctx.bad(f"{short(b.name)}/{k}", [b.loc(bb)], f"no insertion under ExecutionKind::{k} into the map that becomes unavailable_dependencies")
                else:
                    ctx.check(found[k][1], f"{short(b.name)}/{k}", [site(b, found[k][0])],
                              f"the set inserted under ExecutionKind::{k} does not derive from TargetMetadata.dependencies (a target would start with no pending {k} dependency)")


def _refers_to(b, l):
    """locals a reference local may point at (through &mut x / reborrows)"""
    out = {l}
    st = [l]
    while st:
        x = st.pop()
        for kind, d, bb in b.prov.defs.get(x, ()):
            if kind == "assign" and d["rv"]["k"] in ("ref", "use", "rawptr"):
                p = d["rv"].get("place") or (d["rv"]["op"].get("place") if d["rv"]["op"]["k"] != "const" else None)
                if p and p["local"] not in out:
                    out.add(p["local"])
                    st.append(p["local"])
    return out


def set_mutations(body, field, adt="TargetActorHelper"):
    """calls that mutate a HashSet/HashMap reached from helper.<field>: [(bb, term, method, receiver atoms)]"""
    out = []
    for bb, t in body.calls():
        m = re.search(r"(HashSet|HashMap)::<.*?>::(insert|remove|clear|retain|drain|extend|take|replace|remove_entry|entry|get_or_insert_with)\b", callee_decl(t))
        if not m:
            m2 = re.search(r"as std::iter::Extend<.*>>::extend", callee_decl(t))
            if not m2:
                continue
            meth = "extend"
        else:
            meth = m.group(2)
        if not t["args"]:
            continue
        at = body.prov.operand_atoms(t["args"][0], interproc=False)
        if atom_has_field(at, field, adt):
            out.append((bb, t, meth, at))
    return out


@rule("C01.PENDING-BOOKKEEPING", ["C01", "C07"], """the pending-dependency sets are only shrunk in the handler of an Ok message (by that
      message's kind and target id) and every actor's Invalidated handler re-inserts the message's target id under the message's kind;
      nothing else mutates them""", "K4", floor=6)
def pending_bookkeeping(ctx):
    r = ctx.r
    actors = r.actors()
    ctx.need(len(actors) >= 3, "three actor bodies")
    actor_names = {a.name for a in actors}
    for a in actors:
        lab = r.actor_label(a)
        Rok = msg_region(a, "Ok")
        Rinv = msg_region(a, "Invalidated")
        ctx.need(Rok and Rinv, f"Ok and Invalidated handlers in {lab}")
        muts = set_mutations(a, "unavailable_dependencies")
        arg_atoms_of = {}
        # ... and those made on the looked-up set inside a closure: `pending.get_mut(&kind).map_or(false, |set| set.remove(&target_id))`
        for bb, t in a.calls():
            if not re.search(r"Option::<.*>::(map|map_or|map_or_else|is_some_and|and_then|into_iter|iter_mut)(::<.*>)?$", callee_decl(t)) or not t["args"]:
                continue
            at0 = a.prov.operand_atoms(t["args"][0], interproc=False)
            if not atom_has_field(at0, "unavailable_dependencies", "TargetActorHelper"):
                continue
            for x in t["args"][1:]:
                l = operand_local(x)
                for kind, st, _ in (a.prov.direct_producers(l) if l is not None else ()):
                    if kind != "agg" or st["rv"].get("closure") not in ctx.f.bodies:
                        continue
                    cb = ctx.f.bodies[st["rv"]["closure"]]
                    caps = dict(zip(st["rv"].get("fields") or [], st["rv"]["ops"]))
                    for cbb, ct in cb.calls():
                        m = re.search(r"(HashSet|HashMap)::<.*?>::(insert|remove|clear|retain|drain|extend|take|replace|remove_entry)\b", callee_decl(ct))
                        if not m or not ct["args"] or ("param", 2) not in cb.prov.operand_atoms(ct["args"][0], interproc=False):
                            continue
                        arg_at = set()
                        for y in ct["args"][1:2]:
                            for a_ in cb.prov.operand_atoms(y, interproc=False):
                                if a_[0] == "field" and a_[2] in caps:
                                    arg_at |= a.prov.operand_atoms(caps[a_[2]], interproc=False)
                        muts.append((bb, t, m.group(2), at0))
                        arg_atoms_of[bb] = arg_at
        removes = [m for m in muts if m[2] == "remove"]
        inserts = [m for m in muts if m[2] == "insert"]
        others = [m for m in muts if m[2] not in ("remove", "insert")]
        for (bb, t, meth, at) in others:
            ctx.bad(f"{lab}/{meth}", [site(a, bb)], f"unexpected mutation `{meth}` of the pending-dependency sets", props=["C01"])
        if not [m for m in removes if m[0] in Rok]:
            ctx.bad(f"{lab}/Ok.remove", [a.loc()], "the Ok handler does not remove the acknowledged dependency from the pending set", props=["C01"])
        # `match pending.get_mut(&kind) { Some(set) => { set.remove(&target_id); } None => warn }`: there is no set of that kind to shrink on the None edge
        no_set = set()
        for e in a.edges:
            l = e.label
            if e.src in Rok and l is not None and l[0] == "variant" and set(l[2]) == {"None"} and l[3] and l[1] and path_ends(l[1], "Option"):
                oat = a.prov.atoms(l[3]["local"], interproc=False)
                if atom_has_field(oat, "unavailable_dependencies", "TargetActorHelper") and msg_field_atoms("Ok", "kind")(oat) and \
                        any(re.search(r"HashMap::<.*>::(get_mut|get)$", c) for c in atom_callres(oat)):
                    no_set.add((e.src, e.dst))
        for (bb, t, meth, at) in removes:
            arg_at = arg_atoms_of[bb] if bb in arg_atoms_of else a.prov.operand_atoms(t["args"][1], interproc=False)
            good = bb in Rok and msg_field_atoms("Ok", "target_id")(arg_at) and msg_field_atoms("Ok", "kind")(at) and _must_pass(a, Rok, bb, exempt=no_set)
            ctx.check(good, f"{lab}/Ok.remove", [site(a, bb)], props=["C01"], found=
                      "a pending dependency is removed outside the Ok handler, not by the message's own kind and target id, or not on every path of the handler")
        if not [m for m in inserts if m[0] in Rinv]:
            ctx.bad(f"{lab}/Invalidated.insert", [a.loc()], "the Invalidated handler does not put the dependency back into the pending set")
        subs = kind_subregions(a, Rinv, "Invalidated")
        generic, covered = False, set()
        for (bb, t, meth, at) in inserts:
            arg_at = arg_atoms_of[bb] if bb in arg_atoms_of else a.prov.operand_atoms(t["args"][1], interproc=False)
            good = bb in Rinv and msg_field_atoms("Invalidated", "target_id")(arg_at) and msg_field_atoms("Invalidated", "kind")(at)
            # the insert must happen on every path through the handler
            if good:
                good = _must_pass(a, Rinv, bb)
                generic = generic or good
            elif bb in Rinv and msg_field_atoms("Invalidated", "target_id")(arg_at):
                # one arm per kind (`Invalidated { kind: Build, .. } => ..`): the set is selected by the constant of the arm, on every path of the arm
                for k, Rk in subs.items():
                    if k != "*" and bb in Rk and atom_aggs(at, "ExecutionKind") == {k} and _must_pass(a, Rk, bb):
                        good = True
                        covered.add(k)
            ctx.check(good, f"{lab}/Invalidated.insert", [site(a, bb)],
                      "a pending dependency is inserted outside the Invalidated handler, not by the message's own kind/target id, or not on every path of the handler")
        if inserts and not generic and covered and covered != {"Build", "Service"}:
            ctx.bad(f"{lab}/Invalidated.insert", [a.loc(min(Rinv))], f"only an Invalidated of kind {sorted(covered)} puts the dependency back into the pending set: a dependency of the other kind "
                    "that went out of date is still taken for available")
    # outside actor bodies: only the constructor may touch the sets
    cons = {b.name for (b, s) in r.bodies_constructing("TargetActorHelper")}
    in_actor_views = set()
    for a in actors:
        in_actor_views |= r.origins_of_view(ctx.f.bodies[a.name])
    for b in ctx.f.user_bodies():
        if b.name in actor_names or b.name in cons or b.name in in_actor_views or r.outer_fn(b).name in cons:
            continue
        for (bb, t, meth, at) in set_mutations(b, "unavailable_dependencies"):
            ctx.bad(f"{short(b.name)}/{meth}", [site(b, bb)], "the pending-dependency sets are mutated outside an actor's Ok/Invalidated handlers", props=["C01"])


def _must_pass(body, region, bb, exempt=()):
    """every path entering `region` and leaving it passes block bb: removing bb disconnects region entry from region exits (edges (src, dst) in `exempt` are
    not followed)"""
    live = body.reachable_blocks()
    entries = {e.dst for e in body.edges if e.dst in region and e.src not in region and e.src in live}
    exits = {e.dst for e in body.edges if e.src in region and e.dst not in region}
    for en in entries:
        if en == bb:
            continue
        seen = {en}
        st = [en]
        while st:
            x = st.pop()
            for e in body.succ.get(x, ()):
                if e.dst == bb or (e.src, e.dst) in exempt:
                    continue
                if e.dst in exits:
                    return False
                if e.dst in region and e.dst not in seen:
                    seen.add(e.dst)
                    st.append(e.dst)
    return True


def _same_as_executed(body, local, depth=0):
    """+1 if bool `local` always equals the value stored in field `executed` by this body, -1 if it is its negation, else 0"""
    from common import _bool_source_local
    stored = set()
    for blk in body.normal_blocks():
        for st in blk["stmts"]:
            pr = st["lhs"]["proj"]
            if pr and pr[-1]["k"] == "field" and pr[-1]["name"] == "executed" and st["rv"]["k"] == "use" and st["rv"]["op"]["k"] in ("copy", "move") and not st["rv"]["op"]["place"]["proj"]:
                stored.add(_bool_source_local(body, st["rv"]["op"]["place"]["local"]))
    src = _bool_source_local(body, local)
    if src in stored:
        return 1
    defs = body.prov.defs.get(src, ())
    if len(defs) == 1 and defs[0][0] == "assign":
        rv = defs[0][1]["rv"]
        if rv["k"] == "use" and rv["op"]["k"] in ("copy", "move") and place_fields(rv["op"]["place"])[-1:] == ["executed"]:
            return 1
        if rv["k"] == "unop" and rv["op"] == "Not" and rv["a"]["k"] in ("copy", "move"):
            p = rv["a"]["place"]
            if not p["proj"] and _bool_source_local(body, p["local"]) in stored:
                return -1
            if place_fields(p)[-1:] == ["executed"]:
                return -1
    return 0


def _flag_expr(body, local):
    """('field', name) / ('not', ('field', name)) when the bool local is a plain read of a flag field (or its negation), else None"""
    ds = bool_atom_desc(body, local)
    if len(ds) != 1:
        return None
    d = ds[0]
    if d[0] == "field":
        return ("field", d[1])
    if d[0] == "not" and len(d[1]) == 1 and d[1][0][0] == "field":
        return ("not", ("field", d[1][0][1]))
    return None


def _field_writers(body, name):
    """blocks of `body` that may write field `name`: direct stores, and calls of local functions that (transitively) store to it"""
    f = body.facts
    key = ("fw", body.name, name)
    cache = f.__dict__.setdefault("_fw_cache", {})
    if key in cache:
        return cache[key]
    def stores(b):
        return any(st["lhs"]["proj"] and st["lhs"]["proj"][-1]["k"] == "field" and st["lhs"]["proj"][-1]["name"] == name for blk in b.normal_blocks() for st in blk["stmts"])
    writers_fns = {n for n, b in f.bodies.items() if not f.is_derived(b) and stores(b)}
    out = set()
    for blk in body.normal_blocks():
        if any(st["lhs"]["proj"] and st["lhs"]["proj"][-1]["k"] == "field" and st["lhs"]["proj"][-1]["name"] == name for st in blk["stmts"]):
            out.add(blk["id"])
        t = blk["term"]
        if t["k"] == "call" and t["callee"] and not t.get("inlined") and not t.get("inlined_async"):
            cn = callee_base(t)
            if cn in f.bodies and writers_fns & (f.cg.reach([cn], cross_spawn=False) | {cn}):
                out.add(blk["id"])
    cache[key] = out
    return out


def executed_true_region(body):
    out = set()
    # stores `executed := <flag expression>` (e.g. `executed = !to_execute`), possibly in a helper spliced into this view
    stores = []
    for blk in body.normal_blocks():
        for i, st in enumerate(blk["stmts"]):
            pr = st["lhs"]["proj"]
            if pr and pr[-1]["k"] == "field" and pr[-1]["name"] == "executed":
                rv = st["rv"]
                ex = None
                if rv["k"] == "use" and rv["op"]["k"] in ("copy", "move") and not rv["op"]["place"]["proj"]:
                    ex = _flag_expr(body, rv["op"]["place"]["local"])
                elif rv["k"] == "unop" and rv["op"] == "Not" and rv["a"]["k"] in ("copy", "move"):
                    inner = _flag_expr(body, rv["a"]["place"]["local"]) if not rv["a"]["place"]["proj"] else (("field", place_fields(rv["a"]["place"])[-1]) if place_fields(rv["a"]["place"]) else None)
                    if inner is not None:
                        ex = ("not", inner) if inner[0] == "field" else inner[1]
                if ex is not None:
                    stores.append((blk["id"], ex))
    # `executed = true;` - what follows the store (and nothing else can reach) runs under a true `executed`
    for blk in body.normal_blocks():
        for st in blk["stmts"]:
            pr = st["lhs"]["proj"]
            if pr and pr[-1]["k"] == "field" and pr[-1]["name"] == "executed" and st["rv"]["k"] == "use" and is_const(st["rv"]["op"], "true"):
                later = body.dominated_by_block(blk["id"]) - {blk["id"]}
                rewritten = {b2["id"] for b2 in body.normal_blocks() if b2["id"] in later and any(s2["lhs"]["proj"] and s2["lhs"]["proj"][-1]["k"] == "field" and s2["lhs"]["proj"][-1]["name"] == "executed" for s2 in b2["stmts"])}
                if not rewritten:
                    out |= later
    for e in body.edges:
        l = e.label
        if l and l[0] == "bool" and l[2] is not None:
            sgn = _same_as_executed(body, l[2])
            if (sgn == 1 and l[1] is True) or (sgn == -1 and l[1] is False):
                out |= body.dominated_by_edge(e)
                continue
            # the same expression as the one that was just stored into `executed`, with no write of the flag it reads in between
            ex = _flag_expr(body, l[2])
            if ex is None:
                continue
            neg = ("not", ex) if ex[0] == "field" else ex[1]
            for (sb, sx) in stores:
                # (a store in the very block that ends with the test precedes the test: the switch is the block's terminator)
                if sx not in (ex, neg) or not (body.dominates(sb, e.src) or sb == e.src):
                    continue
                fname = ex[1] if ex[0] == "field" else ex[1][1]
                dom = body.dominated_by_block(sb)
                back, stk = set(), [e.src]
                while stk:   # blocks between the store and the test: backwards from the test, never leaving what the store dominates
                    x = stk.pop()
                    for pe in body.pred.get(x, ()):
                        if pe.src in dom and pe.src not in back and pe.src != sb:
                            back.add(pe.src)
                            stk.append(pe.src)
                between = back
                if _field_writers(body, fname) & (between | {e.src}) - {sb}:
                    continue
                same = (sx == ex)
                if (same and l[1] is True) or (not same and l[1] is False):
                    out |= body.dominated_by_edge(e)
    return out


def classify_ok_site(r, body, bb, st):
    """idiom of an ActorInputMessage::Ok construction: 'I1' | 'I2' | 'I3' | None, with a reason.
    The site is looked at inside the actor view that contains it (a handler extracted into a method is part of the actor)."""
    res = []
    for (vb, vbb, vst) in r.map_sites(r.actors(), body, bb, st):
        idiom, why = _classify_ok_site(r, vb, vbb, vst)
        if idiom is None:
            # one unguarded context is enough (a helper spliced in at several call sites is judged in each of them)
            return None, why + (f" [in {short(vb.name)} at {vb.loc(vbb)}]" if vb.name != body.name else "")
        res.append((idiom, why))
    return res[0]


def classify_msg_site(r, body, msg):
    """idiom of an Ok message used in `body` (already a role view): judged where its construction is decided (msg.bb in msg.body)"""
    return _classify_ok_site(r, msg.body, msg.bb, msg.st, msg_kinds=msg.kinds, actual=msg.actual)


def _classify_ok_site(r, body, bb, st, msg_kinds=None, actual="?"):
    # I1: dominated by an edge on which `executed` is known to be true (a read of the field, or the very value that was stored into it)
    G1 = guard_region(body, desc_is_field_read("executed"), True) | executed_true_region(body)
    if bb in G1:
        return "I1", "under a true `executed`"
    # I3: dominated by the true edge of is_empty() on a value reached from unavailable_dependencies
    def pend_empty(d):
        return d[0] == "call" and d[1].endswith("::is_empty") and d[2] and atom_has_field(d[2][0], "unavailable_dependencies", "TargetActorHelper")
    G3 = guard_region(body, pend_empty, True)
    if bb in G3:
        # the emptiness test must concern the kind the acknowledgement is about: the message's own kind
        def pend_empty_of_msg_kind(d):
            return pend_empty(d) and any(a[0] == "field" and a[2] == "kind" and path_ends(a[1], "ActorInputMessage") for a in d[2][0])
        kk0 = msg_kinds if msg_kinds is not None else kind_of_operand(body, agg_field_op(st, "kind"))
        if bb in guard_region(body, pend_empty_of_msg_kind, True) and "msg" in kk0:
            # and nothing else may guard it except the bookkeeping results of this very message
            extra = conditions_within(dominating_conditions(body, bb), [(pend_empty, True), (cond_is_remove_result("unavailable_dependencies"), True), (cond_is_insert_result("requesters"), True),
                                                                      (lambda d: d[0] == "field" and d[1] == "actual", None)])
            if not extra:
                return "I3", "under a true `unavailable_dependencies[kind].is_empty()` for the message's kind"
            return None, "the aggregate's acknowledgement depends on a further condition: " + fmt_conds(extra)
        return None, "acknowledged under an empty pending set of a *different* kind than the one acknowledged"
    # I2: foreign-kind reply
    if r.is_role(r.actors(), body):
        kinds = r.actor_kinds(body)
        Rreq = msg_region(body, "Requested")
        subs = kind_subregions(body, Rreq, "Requested")
        for k, blks in subs.items():
            if k != "*" and k not in kinds and bb in blks:
                kop = agg_field_op(st, "kind")
                aop = agg_field_op(st, "actual")
                kk = msg_kinds if msg_kinds is not None else kind_of_operand(body, kop)
                if "msg" in kk:
                    kk = (kk - {"msg", "param"}) | {k}   # inside the handler of kind k, the request's own kind is k
                act = actual if actual != "?" else (const_val(aop) if aop else None)
                if kk == {k} and act == "false":
                    return "I2", f"foreign-kind reply for {k}"
                return None, f"in the Requested{{{k}}} handler of an actor that does not execute {k}, but kind={sorted(kk)} actual={act}"
    return None, "not under a true `executed`, not under an empty pending set, not a foreign-kind reply"


@rule("C01.OK-DISCIPLINE", ["C01", "C06", "C20", "C07"], """every construction of ActorInputMessage::Ok is one of: I1 announcement under a true
      `executed`; I2 reply `actual: false` for a kind the actor does not execute; I3 aggregate forward under an empty pending set""", "K4", floor=3)
def ok_discipline(ctx):
    r = ctx.r
    n = 0
    for (b, sites) in r.bodies_constructing("ActorInputMessage", "Ok"):
        for (bb, st) in sites:
            if not b.coroutine and b.kind in ("Fn", "AssocFn") and "ActorInputMessage" in b.ret and (st["lhs"]["local"] == 0 or 0 in b.prov.flows_forward(st["lhs"]["local"])):
                # a constructor helper (`fn ok_message(..) -> ActorInputMessage`): what matters is where the message it builds is asked for
                for (cv, cbb, ct) in r.callers_of(b):
                    n += 1
                    kinds = set()
                    kop = agg_field_op(st, "kind")
                    for a in b.prov.operand_atoms(kop, interproc=False):
                        if a[0] == "param" and a[1] - 1 < len(ct["args"]):
                            kinds |= kind_of_operand(cv, ct["args"][a[1] - 1])
                    kinds |= kind_of_operand(b, kop) & {"Build", "Service"}
                    aop = agg_field_op(st, "actual")
                    idiom, why = _classify_ok_site(r, cv, cbb, st, msg_kinds=kinds, actual=bound_const(b, aop, cv, ct))
                    props = {"I1": ["C01", "C06"], "I2": ["C01"], "I3": ["C01", "C20"]}.get(idiom)
                    inst = f"{short(cv.name)}/via-{short(b.name).split('::')[-1]}@{cbb}"
                    if idiom:
                        ctx.ok(inst, [site(cv, cbb)], f"{idiom}: {why}", props=props)
                    else:
                        ctx.bad(inst, [site(cv, cbb)], f"unguarded readiness acknowledgement: {why}", props=["C01", "C20"] if (r.is_role(r.actors(), cv) and not r.actor_kinds(cv)) else ["C01"])
                continue
            idiom, why = classify_ok_site(r, b, bb, st)
            n += 1
            props = {"I1": ["C01", "C06"], "I2": ["C01"], "I3": ["C01", "C20"]}.get(idiom)
            kop = agg_field_op(st, "kind")
            inst = f"{short(b.name)}/{'+'.join(sorted(kind_of_operand(b, kop))) or 'kind'}@{_ordinal(b, bb, sites)}"
            if idiom:
                ctx.ok(inst, [site(b, bb)], f"{idiom}: {why}", props=props)
            else:
                # attribution of an unclassifiable site: by the role of the body it sits in (DESIGN.md 3.7.1)
                vb, _ = r.site_in(r.actors(), b, bb)
                if r.is_role(r.actors(), vb) and not r.actor_kinds(vb):
                    props = ["C01", "C20"]
                elif b in r.helper_methods():
                    props = ["C01", "C06"]
                elif r.is_role(r.actors(), vb):
                    props = ["C01", "C07"]   # an executing actor acknowledging without `executed`: also after its execution failed
                else:
                    props = ["C01"]
                ctx.bad(inst, [site(b, bb)], f"unguarded readiness acknowledgement: {why}", props=props)


def _ordinal(b, bb, sites):
    return [s[0] for s in sites].index(bb)


@rule("C01.FLAG-DISCIPLINE", ["C01", "C08", "C06"], """`to_execute` is set true only by the constructor and the invalidation notifier and false only
      by the start marker; `executed` is written false or `!to_execute`; the start marker is called in every start region""", "K4", floor=6)
def flag_discipline(ctx):
    r = ctx.r
    cons = {b.name for (b, s) in r.bodies_constructing("TargetActorHelper")}
    inv = {b.name for b in r.invalidation_notifiers()}
    ctx.need(inv, "invalidation notifier (writes to_execute := true and constructs Invalidated)")
    ctx.need(r.start_markers(), "start marker (writes to_execute := false)")
    for (b, bb, st) in r.field_writes("to_execute"):
        kind, v = r.written_value(b, st, "to_execute")
        op = v if kind == "op" else (v["op"] if v["k"] == "use" else None)
        val = const_val(op) if op else None
        if val == "true":
            good = b.name in cons or b.name in inv
            ctx.check(good, f"to_execute=true/{short(b.name)}", [site(b, bb)], "`to_execute` is set outside the constructor and the invalidation notifier: a finished target could run again", props=["C01", "C08"])
        elif val == "false":
            # the body is a start marker by definition; it must not also be an invalidation notifier
            ctx.check(b.name not in inv, f"to_execute=false/{short(b.name)}", [site(b, bb)], "the invalidation notifier clears `to_execute`", props=["C01", "C08"])
            # ... and it is only used to *start* an execution: clearing the flag anywhere else (e.g. when a run fails) forgets a change that arrived
            # while the run was in flight
            outside = []
            for (cv, cbb, ct) in r.callers_of(b):
                if r.is_role(r.actors(), cv) and r.actor_kinds(cv):
                    if cbb not in readiness_guard(r, cv):
                        outside.append(site(cv, cbb))
                else:
                    outside.append(site(cv, cbb))
            ctx.check(not outside, f"to_execute=false-only-at-start/{short(b.name)}", outside[:4] or [site(b, bb)],
                      "`to_execute` is cleared outside the start of an execution: an invalidation received during the run (the only record of it is this flag) is lost and the change is never built",
                      props=["C06", "C01"])
        else:
            ctx.bad(f"to_execute=expr/{short(b.name)}", [site(b, bb)], "`to_execute` is written from a non-constant", props=["C01", "C08"])
    for (b, bb, st) in r.field_writes("executed"):
        kind, v = r.written_value(b, st, "executed")
        op = v if kind == "op" else (v["op"] if v["k"] == "use" else None)
        val = const_val(op) if op else None
        if val == "false":
            ctx.ok(f"executed=false/{short(b.name)}", [site(b, bb)], props=["C01", "C08"])
            continue
        good = False
        if kind == "rv" and v["k"] == "use" and v["op"]["k"] in ("copy", "move") and not v["op"]["place"]["proj"]:
            descs = bool_atom_desc(b, v["op"]["place"]["local"])
            if descs and all(d[0] == "not" and d[1] and all(x[0] == "field" and x[1] == "to_execute" for x in d[1]) for d in descs):
                good = True
        if kind == "rv" and v["k"] == "unop" and v["op"] == "Not":
            l = operand_local(v["a"])
            f1 = place_fields(v["a"]["place"]) if v["a"]["k"] != "const" else []
            if "to_execute" in f1:
                good = True
            elif l is not None and any(d[0] == "field" and d[1] == "to_execute" for d in bool_atom_desc(b, l)):
                good = True
        if val == "true" and bb in guard_region(b, desc_is_field_read("to_execute"), False):
            good = True   # `if self.to_execute { self.executed = false; return }  self.executed = true;` - the same assignment, written as two branches
        ctx.check(good, f"executed=expr/{short(b.name)}", [site(b, bb)], "`executed` is set to something other than `false` or `!to_execute`: a run invalidated in flight would be announced as done", props=["C01", "C08", "C06"])
    # the start marker also withdraws the previous "done": a run started after an invalidation must not be announced to late requesters through the
    # stale `executed` of the run before it
    for mk in r.start_markers():
        resets = [bb for (wb, bb, st) in r.field_writes("executed") if wb.name == mk.name and const_val(st["rv"]["op"] if st["rv"]["k"] == "use" else None) == "false"]
        ctx.check(bool(resets), f"start-marker-resets-executed/{short(mk.name)}", [site(mk, x) for x in resets] or [mk.loc()],
                  "starting an execution does not clear `executed`: a requester registering while the re-run is in flight is told the target is done", props=["C01", "C06"])
    # start marker called in the start region of every executing actor
    markers = r.start_markers()
    for a in r.actors():
        if not r.actor_kinds(a):
            continue
        G = readiness_guard(r, a)
        calls = calls_to_role(r, a, markers, G)
        ctx.check(bool(calls), f"start-marker/{r.actor_label(a)}", [site(a, c[0]) for c in calls] or [a.loc()],
                  "the start region does not call the start marker: `to_execute` never drops and the target would be started again on every message", props=["C01", "C08"])


@rule("C01.OUTPUT-DEPS", ["C01", "C13"], """in the resolver the producers named by `X.output` inputs are appended to the target's dependency list
      before the loop that resolves (and thereby schedules) its dependencies""", "K1", floor=1)
def output_deps(ctx):
    r = ctx.r
    ctx.need(r.resolvers(), "recursive resolver over HashMap<TargetId, Target>")
    for b in r.resolvers():
        rec = [bb for bb, t in b.calls() if callee_base(t) == b.name]
        ctx.need(rec, "recursive call site in the resolver")
        # local fns that append to TargetMetadata.dependencies
        appenders = set()
        for fb in ctx.f.code_bodies():
            for bb, t in fb.calls():
                if re.search(r"Vec::<.*>::(extend_from_slice|push|append)$|Extend<.*>>::extend$", callee_decl(t)) and t["args"]:
                    if atom_has_field(fb.prov.operand_atoms(t["args"][0], interproc=False), "dependencies", "TargetMetadata"):
                        appenders.add(fb.name)
        ctx.need(appenders, "function appending to TargetMetadata.dependencies")
        sites = []
        for bb, t in calls_in(b, None, lambda n: n in appenders):
            at = b.prov.operand_atoms(t["args"][1]) if len(t["args"]) > 1 else set()
            sites.append((bb, at))
        if not sites:
            ctx.bad(short(b.name), [b.loc()], "the dependencies implied by `X.output` inputs are never appended to the target's dependency list")
            continue
        for (bb, at) in sites:
            good = all(b.dominates(bb, rb) for rb in rec)
            ctx.check(good, short(b.name), [site(b, bb)], "the `X.output` producers are appended after (or not on every path before) the recursion over the dependencies")
