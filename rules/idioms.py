"""Recognisers for expansion idioms in mir_built (DESIGN.md 3.2.1): .await, ?, select!, for loops, closures."""
import re, collections
from facts import *


class Await:
    __slots__ = ("body", "into_bb", "fut_local", "producer", "callee", "poll_bbs", "ready_edge", "ready_bb", "yield_bbs", "polled", "poll_call_bb", "join", "index")

    def __repr__(self):
        return f"Await({self.callee} @bb{self.into_bb})"


def _is_into_future(t):
    return t["callee"] and t["callee"]["base"].endswith("IntoFuture::into_future")


def awaits(body):
    """every `.await` of the body: the into_future call, the producing call (if any) and the Ready edge"""
    if hasattr(body, "_awaits"):
        return body._awaits
    out = []
    for bb, t in body.calls():
        if not _is_into_future(t):
            continue
        a = Await()
        a.join = None
        a.index = None
        a.body = body
        a.into_bb = bb
        a.fut_local = operand_local(t["args"][0]) if t["args"] else None
        a.producer = None
        a.callee = None
        if a.fut_local is not None:
            for kind, x, pb in body.prov.direct_producers(a.fut_local):
                if kind == "call" and x["callee"]:
                    a.producer = (pb, x)
                    a.callee = callee_base(x)
                    break
        # find the poll loop: first switch on Poll reachable from into_bb without passing another into_future
        a.poll_bbs = []
        a.ready_edge = None
        a.ready_bb = None
        a.yield_bbs = []
        a.polled = []
        a.poll_call_bb = None
        seen = set()
        st = [bb]
        while st:
            x = st.pop()
            if x in seen:
                continue
            seen.add(x)
            tx = body.term(x)
            if x != bb and tx["k"] == "call" and _is_into_future(tx):
                continue
            if tx["k"] == "call" and tx["callee"] and x != bb:
                decl = tx["callee"]["declared"]
                if tx["callee"]["base"].endswith("Future::poll") or (tx["callee"]["rbase"] in body.facts.bodies and body.facts.bodies[tx["callee"]["rbase"]].coroutine) or "as futures::Future>::poll" in decl or "as std::future::Future>::poll" in decl:
                    a.polled.append(tx["callee"]["rbase"] or tx["callee"]["base"])
                    if a.poll_call_bb is None:
                        a.poll_call_bb = x
            if tx["k"] == "switch" and tx.get("adt") == "std::task::Poll":
                a.poll_bbs.append(x)
                for e in body.succ[x]:
                    if e.label[0] == "variant" and e.label[2] == ("Ready",):
                        a.ready_edge = e
                        a.ready_bb = e.dst
                    elif e.label[0] == "variant" and e.label[2] == ("Pending",):
                        # the pending edge leads to the yield
                        y = e.dst
                        for _ in range(6):
                            ty = body.term(y)
                            if ty["k"] == "yield":
                                a.yield_bbs.append(y)
                                break
                            s = body.succ.get(y)
                            if not s or len(s) != 1:
                                break
                            y = s[0].dst
                break
            if tx["k"] == "call" and "orig_target" in tx and x != bb:
                # a call whose callee was spliced in by a view: the await's own poll loop continues at the call's original target
                st.append(tx["orig_target"])
                continue
            for e in body.succ.get(x, ()):
                st.append(e.dst)
        out.append(a)
    body._awaits = out
    return out


JOIN_COMBINATOR = re.compile(r"futures(_util)?::future::(join\d?|try_join\d?)$|future::(join\d?|try_join\d?)$")


def joined_awaits(body):
    """futures awaited together: `future::join(a(), b()).await` awaits a() and b(). One pseudo-Await per argument of an awaited join combinator that is
    directly produced by a call: same poll loop / ready edge as the join's own Await (`.join`), the argument's position in `.index`."""
    if hasattr(body, "_joined_awaits"):
        return body._joined_awaits
    out = []
    for a in awaits(body):
        if not (a.producer and a.callee and JOIN_COMBINATOR.search(a.callee)):
            continue
        for i, arg in enumerate(a.producer[1]["args"]):
            l = operand_local(arg)
            if l is None:
                continue
            for kind, x, pb in body.prov.direct_producers(l):
                if kind == "call" and x["callee"]:
                    j = Await()
                    for sl in Await.__slots__:
                        setattr(j, sl, getattr(a, sl, None))
                    j.producer, j.callee, j.fut_local, j.join, j.index = (pb, x), callee_base(x), l, a, i
                    out.append(j)
                    break
    body._joined_awaits = out
    return out


def await_of_call(body, call_bb):
    """the Await that awaits the future produced by the call at call_bb (directly, or together with others through a join combinator), or None"""
    for a in awaits(body):
        if a.producer and a.producer[0] == call_bb:
            return a
    for a in joined_awaits(body):
        if a.producer[0] == call_bb:
            return a
    return None


def awaited_calls(body, callee_pred):
    """[(call_bb, call term, Await)] for directly awaited calls whose callee base satisfies callee_pred"""
    out = []
    for a in awaits(body):
        if a.producer and callee_pred(callee_base(a.producer[1])):
            out.append((a.producer[0], a.producer[1], a))
    return out


def future_fate(body, call_bb):
    """what happens to the future produced by the call at call_bb: 'awaited', 'passed' (to another call / aggregate / returned), or 'dropped'"""
    t = body.term(call_bb)
    d = t["dest"]["local"]
    if await_of_call(body, call_bb):
        return "awaited"
    fl = body.prov.flows_forward(d)
    if 0 in fl:
        return "passed"
    for l in fl:
        for kind, x, bb in body.prov.uses_of(l):
            if kind == "call" and bb != call_bb:
                if _is_into_future(x):
                    return "awaited"
                return "passed"
            if kind == "assign" and x["rv"]["k"] == "agg":
                return "passed"
            if kind == "yield":
                return "passed"
    return "dropped"


class SelectArm:
    __slots__ = ("body", "switch_bb", "variant", "payload", "edge", "region")

    def __repr__(self):
        return f"Arm({self.variant}:{self.payload[:50]})"


def select_arms(body):
    """arms of every futures::select! in the body, identified by the payload type of the private result enum"""
    if hasattr(body, "_arms"):
        return body._arms
    out = []
    for blk in body.normal_blocks():
        t = blk["term"]
        if t["k"] == "switch" and t.get("adt", "").endswith("__PrivResult"):
            for e in body.succ[blk["id"]]:
                if e.label[0] != "variant" or len(e.label[2]) != 1:
                    continue
                arm = SelectArm()
                arm.body = body
                arm.switch_bb = blk["id"]
                arm.variant = e.label[2][0]
                arm.payload = e.label[4][0] if e.label[4] else ""
                arm.edge = e
                arm.region = body.dominated_by_edge(e)
                out.append(arm)
    body._arms = out
    return out


def arm_by_payload(body, pred):
    return [a for a in select_arms(body) if pred(a.payload)]


def select_poll_closures(body):
    """names of the poll_fn closures built by select! in this body (they capture the arms' futures)"""
    out = []
    for bb, t in body.calls():
        if t["callee"]["base"].endswith("future::poll_fn") or t["callee"]["base"].endswith("poll_fn::poll_fn"):
            if t["args"] and t["args"][0]["k"] != "const":
                for kind, x, pb in body.prov.direct_producers(t["args"][0]["place"]["local"]):
                    if kind == "agg" and "closure" in x["rv"]:
                        out.append((bb, x, pb))
    return out


def try_edges(body):
    """[(branch call bb, switch bb, continue edge, break edge)] for every `?`"""
    out = []
    for bb, t in body.calls():
        if t["callee"]["base"].endswith("Try::branch"):
            nb = t["target"]
            tx = body.term(nb) if nb >= 0 else None
            hops = 0
            while tx and tx["k"] != "switch" and hops < 3:
                s = body.succ.get(nb)
                if not s or len(s) != 1:
                    break
                nb = s[0].dst
                tx = body.term(nb)
                hops += 1
            if tx and tx["k"] == "switch":
                ce = be = None
                for e in body.succ[nb]:
                    if e.label[0] == "variant" and e.label[2] == ("Continue",):
                        ce = e
                    elif e.label[0] == "variant" and e.label[2] == ("Break",):
                        be = e
                out.append((bb, nb, ce, be))
    return out


def is_variant(adt_suffix, name):
    """edge-label predicate: switch on discriminant of ADT (path suffix) taking variant `name`"""
    def p(l, e):
        return l[0] == "variant" and l[1] and path_ends(l[1], adt_suffix) and l[2] == (name,)
    return p


def is_variant_in(adt_suffix, names):
    def p(l, e):
        return l[0] == "variant" and l[1] and path_ends(l[1], adt_suffix) and set(l[2]) <= set(names) and len(l[2]) >= 1
    return p


def variant_region(body, adt_suffix, name, within=None, on_pred=None):
    def p(l, e):
        if not (l[0] == "variant" and l[1] and path_ends(l[1], adt_suffix) and l[2] == (name,)):
            return False
        if on_pred is not None and not on_pred(l[3]):
            return False
        return True
    return body.region(p, within=within)


def bool_atom_desc(body, local, depth=0):
    """describe what a switched bool local stands for: list of ('field', name) / ('call', callee base, receiver atoms, arg atoms) /
    ('not', inner) / ('binop', op, a-desc, b-desc) / ('const', v) / ('param', i) / ('deref-of', ...)"""
    out = []
    if depth > 8:
        return out
    pv = body.prov
    if 1 <= local <= body.argc:
        out.append(("param", local))
    for kind, x, bb in pv.defs.get(local, ()):
        if kind == "assign":
            rv = x["rv"]
            if rv["k"] == "use":
                o = rv["op"]
                if o["k"] in ("copy", "move"):
                    p = o["place"]
                    f = place_fields(p)
                    ef = body.prov._env_field_ops(p) if f else None
                    if ef is not None and not ef[1] and all(x["k"] in ("copy", "move") and not [pr for pr in x["place"]["proj"] if pr["k"] != "deref"] for x in ef[0]):
                        # a captured variable of a spliced-in async fn / closure: describe the value it was built from
                        for x in ef[0]:
                            out += bool_atom_desc(body, x["place"]["local"], depth + 1)
                    elif f:
                        out.append(("field", f[-1], tuple(f), bb))
                    else:
                        out += bool_atom_desc(body, p["local"], depth + 1)
                elif o["k"] == "const":
                    out.append(("const", o["val"], bb))
            elif rv["k"] == "unop" and rv["op"] == "Not":
                l = operand_local(rv["a"])
                inner = bool_atom_desc(body, l, depth + 1) if l is not None else []
                if rv["a"]["k"] in ("copy", "move") and place_fields(rv["a"]["place"]):
                    f = place_fields(rv["a"]["place"])
                    inner = [("field", f[-1], tuple(f), bb)]
                out.append(("not", tuple(inner), bb))
            elif rv["k"] == "binop":
                def side(o):
                    if o["k"] == "const":
                        return (("const", o["val"]),)
                    if place_fields(o["place"]):
                        f = place_fields(o["place"])
                        return (("field", f[-1], tuple(f)),)
                    return tuple(value_desc(body, o["place"]["local"], depth + 1))
                out.append(("binop", rv["op"], side(rv["a"]), side(rv["b"]), bb))
            elif rv["k"] == "ref":
                p = rv["place"]
                f = place_fields(p)
                if f:
                    out.append(("field", f[-1], tuple(f), bb))
                else:
                    out += bool_atom_desc(body, p["local"], depth + 1)
            elif rv["k"] == "cast":
                pass
        elif kind == "call":
            if callee_base(x).endswith("ops::Not>::not") and x["args"] and operand_local(x["args"][0]) is not None:
                out.append(("not", tuple(bool_atom_desc(body, operand_local(x["args"][0]), depth + 1)), bb))
            else:
                out.append(call_desc(body, x, bb))
    return out


def call_desc(body, t, bb):
    pv = body.prov
    cb = callee_base(t)
    args, local_args = [], []
    for a in t["args"]:
        args.append(frozenset(pv.operand_atoms(a)))
        local_args.append(frozenset(pv.operand_atoms(a, interproc=False)))
    # [4]: the same without following values across calls (what the operands are made of *here*): used where a constant must be the one written at
    # this site, not one that some caller could have passed
    return ("call", cb, tuple(args), bb, tuple(local_args))


def value_desc(body, local, depth=0):
    """like bool_atom_desc but for any scalar local (call results, field reads, constants)"""
    out = []
    if depth > 8:
        return out
    pv = body.prov
    for kind, x, bb in pv.defs.get(local, ()):
        if kind == "assign":
            rv = x["rv"]
            if rv["k"] == "use":
                o = rv["op"]
                if o["k"] == "const":
                    out.append(("const", o["val"]))
                else:
                    f = place_fields(o["place"])
                    if f:
                        out.append(("field", f[-1], tuple(f)))
                    else:
                        out += value_desc(body, o["place"]["local"], depth + 1)
            elif rv["k"] in ("ref", "cast"):
                p = rv.get("place") or (rv["op"].get("place") if rv["op"]["k"] != "const" else None)
                if p:
                    f = place_fields(p)
                    if f:
                        out.append(("field", f[-1], tuple(f)))
                    else:
                        out += value_desc(body, p["local"], depth + 1)
        elif kind == "call":
            out.append(call_desc(body, x, bb))
    return out


def atom_fields(atoms, adt_suffix=None):
    return {a[2] for a in atoms if a[0] == "field" and (adt_suffix is None or path_ends(a[1], adt_suffix) or a[1].endswith(adt_suffix))}


def atom_has_field(atoms, name, adt_suffix=None):
    return name in atom_fields(atoms, adt_suffix)


def atom_aggs(atoms, adt_suffix):
    return {a[2] for a in atoms if a[0] == "agg" and path_ends(a[1], adt_suffix)}


def atom_callres(atoms):
    return {a[1] for a in atoms if a[0] == "callres"}


def atom_consts(atoms):
    return {a[1] for a in atoms if a[0] == "const"}


def guard_region(body, pred_desc, polarity, within=None):
    """P4: blocks dominated by the `polarity` edge of a bool switch whose switched local has a description satisfying pred_desc.
    pred_desc(desc_item) -> True for the atom we look for. `Not` is looked through with flipped polarity."""
    out = set()
    for e in body.edges:
        l = e.label
        if not l or l[0] != "bool" or l[2] is None:
            continue
        if within is not None and e.src not in within:
            continue
        if _bool_edge_matches(body, l[2], l[1], pred_desc, polarity):
            out |= body.dominated_by_edge(e)
    # a decision carried by a value of a crate-local enum: `let scope = if c { E::A } else { E::B }; match scope { E::A => .. }` - the arm of A is under c
    for e in body.edges:
        l = e.label
        if not l or l[0] != "variant" or len(l[2]) != 1 or not l[1] or l[1] not in body.facts.adts:
            continue
        if within is not None and e.src not in within:
            continue
        for (d, pol) in variant_implied(body, l[1], l[2][0]):
            if pol == polarity and pred_desc(d):
                out |= body.dominated_by_edge(e)
                break
    return out


def variant_implied(body, adt, variant):
    """[(desc item, polarity)] conditions under which *every* construction of adt::variant happens, when all of them are in this body; else []"""
    key = ("vi", adt, variant)
    cache = body.__dict__.setdefault("_vi", {})
    if key in cache:
        return cache[key]
    sites = [bb for (bb, st) in body.aggregates(adt, variant) if path_ends(st["rv"]["adt"], adt)]
    total = 0
    own = set()
    for blk in body.j["blocks"]:
        own.add(blk.get("origin", body.name))
    for n, b in body.facts.bodies.items():
        if b.kind in ("Const", "Static") or body.facts.is_derived(b):
            continue
        cnt = sum(1 for _ in b.aggregates(adt, variant))
        if cnt and n not in own:
            total += cnt
    res = []
    if sites and total == 0:
        common = None
        for bb in sites:
            facts = set()
            for e in body.edges:
                l = e.label
                if l and l[0] == "bool" and l[2] is not None and bb in body.dominated_by_edge(e):
                    for d in bool_atom_desc(body, l[2]):
                        if d[0] == "not":
                            for inner in d[1]:
                                facts.add((_freeze(inner), not l[1]))
                        else:
                            facts.add((_freeze(d), l[1]))
                    for (d, pol) in implied_when(body, l[2], l[1]):
                        facts.add((_freeze(d), pol))
            common = facts if common is None else (common & facts)
        res = list(common or ())
    cache[key] = res
    return res


def _bool_edge_matches(body, local, edge_val, pred_desc, polarity, depth=0):
    for d in bool_atom_desc(body, local):
        if d[0] == "not":
            for inner in d[1]:
                if pred_desc(inner) and (not edge_val) == polarity:
                    return True
        elif pred_desc(d) and edge_val == polarity:
            return True
    # `let c = a && b; if c {..}`: c is assigned `false` where a is false and `b` where a is true, so c == true implies a (and b).
    if depth < 3:
        for (dd, pol) in implied_when(body, local, edge_val):
            if pol == polarity and pred_desc(dd):
                return True
    return False


def implied_when(body, local, value):
    """[(desc item, polarity)] facts that hold whenever bool `local` has `value`, derived from where its possible values are assigned:
    every assignment that can produce `value` sits under the fact's edge. (Handles conditions bound to a local before being tested.)"""
    pv = body.prov
    defs = [d for d in pv.defs.get(local, ()) if d[0] in ("assign", "call")]
    if len(defs) < 2:
        # a plain copy of another local: look through it
        if len(defs) == 1 and defs[0][0] == "assign":
            rv = defs[0][1]["rv"]
            if rv["k"] == "use" and rv["op"]["k"] in ("copy", "move") and not rv["op"]["place"]["proj"]:
                return implied_when(body, rv["op"]["place"]["local"], value)
        return []
    producing = []
    for kind, x, bb in defs:
        if kind == "assign" and x["rv"]["k"] == "use" and x["rv"]["op"]["k"] == "const":
            cv = x["rv"]["op"]["val"]
            if (cv == "true") != value:
                continue  # this assignment cannot produce `value`
        producing.append((kind, x, bb))
    if not producing:
        return []
    common = None
    for kind, x, bb in producing:
        facts = set()
        for e in body.edges:
            l = e.label
            if l and l[0] == "bool" and l[2] is not None and bb in body.dominated_by_edge(e):
                for d in bool_atom_desc(body, l[2]):
                    if d[0] == "not":
                        for inner in d[1]:
                            facts.add((_freeze(inner), not l[1]))
                    else:
                        facts.add((_freeze(d), l[1]))
        # the assigned value itself, when it is the value being asked for
        if kind == "call" or (kind == "assign" and not (x["rv"]["k"] == "use" and x["rv"]["op"]["k"] == "const")):
            own = [call_desc(body, x, bb)] if kind == "call" else []
            if kind == "assign":
                rv = x["rv"]
                if rv["k"] == "use" and rv["op"]["k"] in ("copy", "move"):
                    own = bool_atom_desc(body, rv["op"]["place"]["local"]) if not place_fields(rv["op"]["place"]) else [("field", place_fields(rv["op"]["place"])[-1], tuple(place_fields(rv["op"]["place"])), bb)]
            for d in own:
                if d[0] == "not":
                    for inner in d[1]:
                        facts.add((_freeze(inner), not value))
                else:
                    facts.add((_freeze(d), value))
        common = facts if common is None else (common & facts)
    return [(_thaw(d), pol) for (d, pol) in (common or ())]


def _freeze(d):
    if isinstance(d, (list, tuple)):
        return tuple(_freeze(x) for x in d)
    if isinstance(d, (set, frozenset)):
        return frozenset(_freeze(x) for x in d)
    if isinstance(d, dict):
        return ("<dict>", id(d))
    return d


def _thaw(d):
    return d


def bool_edges(body, pred_desc, polarity):
    out = []
    for e in body.edges:
        l = e.label
        if not l or l[0] != "bool" or l[2] is None:
            continue
        if _bool_edge_matches(body, l[2], l[1], pred_desc, polarity):
            out.append(e)
    return out


def for_loops(body):
    """[(next call bb, switch bb, none edge (exit), some edge, loop blocks, iterator atoms)]"""
    out = []
    loops = body.natural_loops()
    for bb, t in body.calls():
        if t["callee"]["base"].endswith("Iterator::next") or t["callee"]["base"].endswith("iter::Iterator::next"):
            nb = t["target"]
            if nb < 0:
                continue
            tx = body.term(nb)
            if tx["k"] != "switch" or not tx.get("adt", "").endswith("Option"):
                continue
            ne = se = None
            for e in body.succ[nb]:
                if e.label[0] == "variant" and e.label[2] == ("None",):
                    ne = e
                elif e.label[0] == "variant" and e.label[2] == ("Some",):
                    se = e
            blks = None
            for h, lb, exits in loops:
                if bb in lb:
                    if blks is None or len(lb) < len(blks):
                        blks = lb
            it_atoms = body.prov.operand_atoms(t["args"][0]) if t["args"] else set()
            out.append((bb, nb, ne, se, blks or set(), it_atoms))
    return out


def calls_in(body, blocks, pred):
    """[(bb, term)] of calls in `blocks` whose callee (resolved base or declared base) satisfies pred"""
    out = []
    for bb, t in body.calls():
        if blocks is not None and bb not in blocks:
            continue
        c = t["callee"]
        if pred(c["rbase"] or c["base"]) or pred(c["base"]):
            out.append((bb, t))
    return out


def name_is(*suffixes):
    def p(n):
        return any(path_ends(n, s) or n == s for s in suffixes)
    return p


def name_re(rx):
    r = re.compile(rx)
    return lambda n: bool(r.search(n))


# ------------------------------------------------------------------ value origins (path-rule vocabulary)
def poll_locals(body):
    """poll-result local -> Await, for every await of the body"""
    if hasattr(body, "_poll_locals"):
        return body._poll_locals
    out = {}
    for a in awaits(body):
        for pb in a.poll_bbs:
            t = body.term(pb)
            on = t.get("on")
            if on and not on["proj"]:
                out[on["local"]] = a
    body._poll_locals = out
    return out


def rv_origins(body, rv, bb, x, depth=0, _seen=None):
    """origins of the value computed by an rvalue (see origins)"""
    if _seen is None:
        _seen = set()
    out = []
    pl = poll_locals(body)
    if rv["k"] in ("use", "ref", "cast"):
        o = rv.get("op")
        p = rv.get("place") if rv["k"] == "ref" else (o["place"] if o and o["k"] in ("copy", "move") else None)
        if p is None:
            if o and o["k"] == "const":
                out.append(("const", o["val"]))
            return out
        projs = [pr for pr in p["proj"] if pr["k"] != "deref"]
        if not projs:
            out += origins(body, p["local"], depth + 1, _seen)
            return out
        # a read of a captured variable of a spliced-in closure/coroutine environment: resolve to the operand it was built from
        if projs[0]["k"] == "field":
            defs = body.prov.defs.get(p["local"], ())
            envs = [d for d in defs if d[0] == "assign" and d[1]["rv"]["k"] == "agg" and ("coroutine" in d[1]["rv"] or "closure" in d[1]["rv"]) and d[1]["rv"].get("fields")]
            if envs and len(defs) == len(envs):
                hit = False
                for d in envs:
                    rvx = d[1]["rv"]
                    if projs[0]["name"] in rvx["fields"]:
                        o2 = rvx["ops"][rvx["fields"].index(projs[0]["name"])]
                        if o2["k"] == "const":
                            base = [("const", o2["val"])]
                        else:
                            pj = [pr for pr in o2["place"]["proj"] if pr["k"] != "deref"]
                            base = origins(body, o2["place"]["local"], depth + 1, _seen)
                            if pj:
                                base = [("field", tuple(pr.get("name") or pr.get("variant") for pr in pj), tuple(base))]
                        rest = projs[1:]
                        if rest:
                            out.append(("field", tuple(pr.get("name") or pr.get("variant") for pr in rest), tuple(base)))
                        else:
                            out += base
                        hit = True
                if hit:
                    return out
        # (poll as Ready).0 -> the awaited value
        if p["local"] in pl and len(projs) >= 2 and projs[0]["k"] == "downcast" and projs[0]["variant"] == "Ready":
            a = pl[p["local"]]
            rest = projs[2:]
            base = ("await", a.callee, a.into_bb, a)
            if rest:
                out.append(("field", tuple(pr.get("name") or pr.get("variant") for pr in rest), (base,)))
            else:
                out.append(base)
            # the awaited async fn was spliced into this view: its returns assign `Poll::Ready(value)` to the poll local - the value is visible too
            for kind2, x2, bb2 in body.prov.defs.get(p["local"], ()):
                if kind2 == "assign" and x2["rv"]["k"] == "agg" and x2["rv"].get("adt") == "std::task::Poll" and x2["rv"]["ops"] and x2["rv"]["ops"][0]["k"] in ("copy", "move"):
                    inner = origins(body, x2["rv"]["ops"][0]["place"]["local"], depth + 1, _seen)
                    if rest:
                        out.append(("field", tuple(pr.get("name") or pr.get("variant") for pr in rest), tuple(inner)))
                    else:
                        out += inner
            return out
        names = tuple(pr.get("name") or pr.get("variant") for pr in projs)
        bo = origins(body, p["local"], depth + 1, _seen)
        out.append(("field", names, tuple(bo)))
        # the payload of a value that was built in this very body (`Some(v)` returned by a spliced-in helper, then matched): v itself
        if len(projs) >= 2 and projs[0]["k"] == "downcast" and projs[1]["k"] == "field" and projs[1].get("idx") is not None:
            for o in bo:
                if o[0] == "agg" and o[2] == projs[0]["variant"] and projs[1]["idx"] < len(o[4]["rv"]["ops"]):
                    op = o[4]["rv"]["ops"][projs[1]["idx"]]
                    if op["k"] in ("copy", "move") and not [pr for pr in op["place"]["proj"] if pr["k"] != "deref"]:
                        inner = origins(body, op["place"]["local"], depth + 1, _seen)
                        rest = projs[2:]
                        if rest:
                            out.append(("field", tuple(pr.get("name") or pr.get("variant") for pr in rest), tuple(inner)))
                        else:
                            out += inner
    elif rv["k"] == "unop" and rv["op"] == "Not":
        l = operand_local(rv["a"])
        if l is not None and not [pr for pr in rv["a"]["place"]["proj"] if pr["k"] != "deref"]:
            out.append(("not", tuple(origins(body, l, depth + 1, _seen))))
        elif l is not None:
            names = tuple(pr.get("name") or pr.get("variant") for pr in rv["a"]["place"]["proj"] if pr["k"] != "deref")
            out.append(("not", (("field", names, tuple(origins(body, l, depth + 1, _seen))),)))
    elif rv["k"] == "binop":
        def side(o):
            if o["k"] == "const":
                return (("const", o["val"]),)
            projs = [pr for pr in o["place"]["proj"] if pr["k"] != "deref"]
            if projs:
                return (("field", tuple(pr.get("name") or pr.get("variant") for pr in projs), tuple(origins(body, o["place"]["local"], depth + 1, _seen))),)
            return tuple(origins(body, o["place"]["local"], depth + 1, _seen))
        out.append(("binop", rv["op"], side(rv["a"]), side(rv["b"])))
    elif rv["k"] == "agg" and "adt" in rv:
        out.append(("agg", rv["adt"], rv["variant"], bb, x))
    elif rv["k"] == "agg" and rv.get("tuple"):
        elems = []
        for o in rv["ops"]:
            if o["k"] == "const":
                elems.append((("const", o["val"]),))
            else:
                projs = [pr for pr in o["place"]["proj"] if pr["k"] != "deref"]
                base = tuple(origins(body, o["place"]["local"], depth + 1, _seen))
                elems.append((("field", tuple(pr.get("name") or pr.get("variant") for pr in projs), base),) if projs else base)
        out.append(("tuple", tuple(elems)))
    elif rv["k"] == "discr":
        out += [("discr-of",) + (o,) for o in origins(body, rv["place"]["local"], depth + 1, _seen)]
    return out


TRANSPARENT_CALL = re.compile(r"Result::<T, E>::map_err$|ops::Try>::branch$|anyhow::[^|]*Context[^|]*::(context|with_context)$|Result::<T, E>::(as_ref|as_mut)$|Option::<T>::(as_ref|as_mut|as_deref|as_deref_mut|cloned|copied|ok_or|ok_or_else)$")


def origins(body, local, depth=0, _seen=None):
    """where the value of a local comes from, following moves/copies/refs/casts:
    ('await', callee base or None, into_bb, Await) | ('call', callee base, bb, term) | ('field', names, base origins) |
    ('param', i) | ('const', val) | ('agg', adt, variant, bb, stmt) | ('not', origins) | ('binop', op, a origins, b origins)"""
    if _seen is None:
        _seen = set()
    out = []
    if local in _seen or depth > 12:
        return out
    _seen = _seen | {local}
    if 1 <= local <= body.argc:
        out.append(("param", local))
    pl = poll_locals(body)
    for kind, x, bb in body.prov.defs.get(local, ()):
        if kind == "call":
            if x["callee"] and callee_base(x).endswith("ops::Not>::not") and x["args"] and operand_local(x["args"][0]) is not None:
                out.append(("not", tuple(origins(body, operand_local(x["args"][0]), depth + 1, _seen))))
            elif x["callee"]:
                out.append(("call", callee_base(x), bb, x))
                # value-preserving wrappers (`r.map_err(..)`, `r.context(..)`, the `?` operator's `branch`): what went in is (inside) what comes out
                if TRANSPARENT_CALL.search(callee_base(x)) and x["args"] and operand_local(x["args"][0]) is not None \
                        and not [pr for pr in x["args"][0]["place"]["proj"] if pr["k"] != "deref"]:
                    out += origins(body, operand_local(x["args"][0]), depth + 1, _seen)
        elif kind == "assign":
            out += rv_origins(body, x["rv"], bb, x, depth, _seen)
    return out


def origin_matches(orig, pred, through_fields=True, through_not=False):
    """does any origin (recursively through field bases) satisfy pred?"""
    for o in orig:
        if pred(o):
            return True
        if through_fields and o[0] == "field" and origin_matches(o[2], pred, through_fields, through_not):
            return True
        if through_fields and o[0] == "tuple" and any(origin_matches(el, pred, through_fields, through_not) for el in o[1]):
            return True
        if through_not and o[0] == "not" and origin_matches(o[1], pred, through_fields, through_not):
            return True
    return False


def edge_origin(body, e):
    """origins of the value a switch edge tests: for bool edges the switched local, for variant edges the `on` place"""
    l = e.label
    if not l:
        return []
    if l[0] == "bool" and l[2] is not None:
        return origins(body, l[2])
    if l[0] == "variant" and l[3]:
        on = l[3]
        projs = [pr for pr in on["proj"] if pr["k"] != "deref"]
        base = origins(body, on["local"])
        pl = poll_locals(body)
        if on["local"] in pl and len(projs) >= 2 and projs[0]["k"] == "downcast" and projs[0]["variant"] == "Ready":
            a = pl[on["local"]]
            base = [("await", a.callee, a.into_bb, a)]
            projs = projs[2:]
        if projs:
            return [("field", tuple(pr.get("name") or pr.get("variant") for pr in projs), tuple(base))]
        return base
    return []


def is_await_of(pred):
    return lambda o: o[0] == "await" and o[1] is not None and pred(o[1])


def is_call_of(pred):
    return lambda o: o[0] == "call" and pred(o[1])
