"""Role discovery (DESIGN.md 3.3): rules find functions through the repository's vocabulary of types, fields and
external APIs, never by function name. Function names only appear as labels in reports."""
import re
from facts import *
from idioms import *
from engine import AnchorLost

RX_RECV_NEXT = r"<async_std::channel::Receiver<([^<>]*(?:<[^<>]*>)?[^<>]*)> as async_std::stream::StreamExt>::next$|async_std::channel::Receiver::<(.*)>::recv$"


def recv_types(body):
    """message types this body receives (Receiver<T>::next / recv)"""
    out = []
    for bb, t in body.calls():
        m = re.search(RX_RECV_NEXT, t["callee"]["declared"])
        if m:
            out.append(((m.group(1) or m.group(2)), bb))
    return out


def send_calls(body):
    """[(bb, term, msg type, 'send'|'try_send')]"""
    out = []
    for bb, t in body.calls():
        m = re.match(r"async_std::channel::Sender::<(.*)>::(send|try_send)$", t["callee"]["declared"]) or \
            re.match(r"async_channel::Sender::<(.*)>::(send|try_send|send_blocking|force_send)$", t["callee"]["declared"])
        if m:
            out.append((bb, t, m.group(1), m.group(2)))
    return out


def tyname(t):
    return t.split("::")[-1]


class Roles:
    def __init__(self, facts):
        self.f = facts
        self._c = {}

    def _memo(self, k, fn):
        if k not in self._c:
            self._c[k] = fn()
        return self._c[k]

    # ---- views (DESIGN.md section 12): role bodies are looked at with their single-call-site helpers spliced in
    def V(self, b):
        return self.f.view(b)

    def origins_of_view(self, b):
        """names of the bodies whose code is part of b's view (b itself included)"""
        def go():
            v = self.f.view(b)
            return {blk.get("origin", b.name) for blk in v.j["blocks"]} | {b.name}
        return self._memo(("vo", b.name), go)

    def contains(self, a, b):
        """b's code is spliced into a's view"""
        return a.name != b.name and b.name in self.origins_of_view(a)

    def minimal(self, cands):
        """of the raw bodies `cands` (whose views satisfy some role predicate) keep the innermost ones: those that contain no other candidate"""
        out = [b for b in cands if not any(self.contains(b, c) for c in cands)]
        return sorted(out, key=lambda b: b.name)

    def outermost(self, cands):
        out = [b for b in cands if not any(self.contains(c, b) for c in cands)]
        return sorted(out, key=lambda b: b.name)

    def site_in(self, role_views, body, bb):
        """(view, block) of raw site (body, bb) inside the first of `role_views` that contains body's code; else the body's own view"""
        for v in role_views:
            if v.name == body.name:
                return v, bb
            if body.name in self.origins_of_view(self.f.bodies[v.name]):
                nb = v.locate(body.name, bb)
                if nb is not None:
                    return v, nb
        return self.V(body), bb

    def map_site(self, role_views, body, bb, st):
        """like site_in, also returning the statement as it appears in the view (locals renumbered by the splice)"""
        v, nb = self.site_in(role_views, body, bb)
        if v is body or (v.name == body.name and nb == bb and v.blocks[nb]["stmts"] and st in v.blocks[nb]["stmts"]):
            return v, nb, st
        try:
            idx = next(i for i, x in enumerate(body.blocks[bb]["stmts"]) if x is st)
            return v, nb, v.blocks[nb]["stmts"][idx]
        except (StopIteration, IndexError, KeyError):
            return v, nb, st

    def sites_in(self, role_views, body, bb):
        """every copy [(view, block)] of raw site (body, bb) inside the `role_views` (a helper spliced in at several call sites, or into several
        roles, is judged in each of its contexts); the body's own view if none of them contains it"""
        out = []
        for v in role_views:
            if v.name == body.name:
                out.append((v, bb))
            elif body.name in self.origins_of_view(self.f.bodies[v.name]):
                out += [(v, nb) for nb in v.locate_all(body.name, bb)]
        return out or [(self.V(body), bb)]

    def map_sites(self, role_views, body, bb, st):
        """like sites_in, with the statement as it appears in each copy"""
        out = []
        idx = next((i for i, x in enumerate(body.blocks[bb]["stmts"]) if x is st), None)
        for (v, nb) in self.sites_in(role_views, body, bb):
            st2 = st
            if not (v.name == body.name and nb == bb):
                try:
                    st2 = v.blocks[nb]["stmts"][idx] if idx is not None else st
                except (IndexError, KeyError):
                    st2 = st
            out.append((v, nb, st2))
        return out

    def is_role(self, role_views, body):
        return any(v.name == body.name for v in role_views)

    def roots(self):
        """user bodies that are not spliced into any other body's view"""
        def go():
            ub = self.f.user_bodies()
            inl = set()
            for b in ub:
                inl |= self.origins_of_view(b) - {b.name}
            return [b for b in ub if b.name not in inl]
        return self._memo("roots", go)

    def root_views(self):
        return self._memo("root_views", lambda: [self.V(b) for b in self.roots()])

    def containers(self, b):
        """the root bodies whose views contain b's code (b itself if it is a root)"""
        return [rb for rb in self.roots() if rb.name == b.name or b.name in self.origins_of_view(rb)] or [b]

    def container(self, b):
        """the root body whose view contains b's code (b itself if it is a root)"""
        for rb in self.roots():
            if rb.name == b.name or b.name in self.origins_of_view(rb):
                return rb
        return b

    # ---- message-loop roles
    def actors(self):
        def go():
            cands = [b for b in self.f.user_bodies() if b.coroutine and any(tyname(ty) == "ActorInputMessage" for ty, _ in recv_types(self.V(b)))
                     and arm_by_payload(self.V(b), lambda p: "ActorInputMessage" in p)]
            return [self.V(b) for b in self.minimal(cands)]
        return self._memo("actors", go)

    def relays(self):
        """message loops of the engine: bodies with a select arm on the actors' output channel"""
        def go():
            def in_loop(v):
                # the select sits in a loop of this body (a helper that waits for *one* event - spliced into the loops that call it - is not a relay)
                loops = v.natural_loops()
                return any(arm.edge.src in blks for arm in arm_by_payload(v, lambda p: "TargetActorOutputMessage" in p) for (h, blks, ex) in loops)
            cands = [b for b in self.f.user_bodies() if b.coroutine and any(tyname(ty) == "TargetActorOutputMessage" for ty, _ in recv_types(self.V(b)))
                     and arm_by_payload(self.V(b), lambda p: "TargetActorOutputMessage" in p) and in_loop(self.V(b))]
            return [self.V(b) for b in self.minimal(cands)]
        return self._memo("relays", go)

    def actor_label(self, b):
        m = re.search(r"(\w+)::run::\{closure#0\}$", b.name)
        return m.group(1) if m else short(b.name)

    def actor_kinds(self, actor):
        """execution kinds the actor *executes* = kinds passed as constant to the readiness predicate / start region;
        empty for an actor that executes nothing (aggregate)"""
        kinds = set()
        for rp in self.readiness_predicates():
            for bb, t in calls_in(actor, None, lambda n: n == rp.name):
                if len(t["args"]) >= 2:
                    kinds |= atom_aggs(actor.prov.operand_atoms(t["args"][1]), "ExecutionKind")
        return kinds

    def helper_adt(self):
        for p in self.f.adts:
            if path_ends(p, "TargetActorHelper"):
                return p
        raise AnchorLost("struct TargetActorHelper")

    def helper_methods(self):
        """bodies whose first user parameter is &/&mut TargetActorHelper (incl. their async bodies)"""
        def go():
            out = []
            for b in self.f.code_bodies():
                tys = [l["ty"] for l in b.locals[1:b.argc + 1]]
                if tys and re.match(r"&(mut )?[\w:]*TargetActorHelper$", tys[0]):
                    out.append(b)
                    co = self.f.coroutine_of(b.name)
                    if co:
                        out.append(co)
            return out
        return self._memo("helper_methods", go)

    def readiness_predicates(self):
        """fn(&TargetActorHelper, ExecutionKind) -> bool consulted by an actor (looked at with its private helpers spliced in)"""
        def go():
            cands = []
            for b in self.f.user_bodies():
                if b.argc == 2 and b.ret == "bool" and re.match(r"&[\w:]*TargetActorHelper$", b.locals[1]["ty"]) and tyname(b.locals[2]["ty"]) == "ExecutionKind":
                    # the predicate that decides whether to *run*: it consults the `to_execute` flag (an accessor such as "are the dependencies of
                    # this kind available" has the same signature but is a component of it)
                    v = self.V(b)
                    reads_flag = any(("field", a[1], "to_execute") == a for blk in v.normal_blocks() for st in blk["stmts"] for a in v.prov.atoms(st["lhs"]["local"], interproc=False) if a[0] == "field")
                    if reads_flag:
                        cands.append(b)
            called = [b for b in cands if any(calls_in(a, None, lambda n, b=b: n == b.name) for a in self.actors())]
            return [self.V(b) for b in (called or self.outermost(cands))]
        return self._memo("readiness", go)

    def field_writes(self, field, adt_suffix="TargetActorHelper"):
        """[(body, bb, stmt)] of every assignment whose lhs ends in field `field` of the ADT"""
        def go():
            out = []
            for b in self.f.code_bodies():
                for blk in b.normal_blocks():
                    for st in blk["stmts"]:
                        pr = st["lhs"]["proj"]
                        if pr and pr[-1]["k"] == "field" and pr[-1]["name"] == field and path_ends(pr[-1]["of"], adt_suffix):
                            out.append((b, blk["id"], st))
                    # aggregate construction of the struct also writes the field
                    for st in blk["stmts"]:
                        rv = st["rv"]
                        if rv["k"] == "agg" and "adt" in rv and path_ends(rv["adt"], adt_suffix) and field in rv.get("fields", []):
                            out.append((b, blk["id"], st))
            return out
        return self._memo(("fw", field, adt_suffix), go)

    def written_value(self, b, st, field):
        """the operand written to `field` by this statement"""
        rv = st["rv"]
        if rv["k"] == "agg" and "adt" in rv and st["lhs"]["proj"] == [] or (rv["k"] == "agg" and field in rv.get("fields", []) and not (st["lhs"]["proj"] and st["lhs"]["proj"][-1].get("name") == field)):
            i = rv["fields"].index(field)
            return ("op", rv["ops"][i])
        return ("rv", rv)

    def bodies_constructing(self, adt_suffix, variant=None):
        def go():
            out = []
            for b in self.f.user_bodies():
                sites = list(b.aggregates(adt_suffix, variant))
                if sites:
                    out.append((b, sites))
            return out
        return self._memo(("constructing", adt_suffix, variant), go)

    def invalidation_notifiers(self):
        """helper methods that write to_execute := true (the constructor builds the struct by aggregate and is not a method)"""
        def go():
            out = []
            hm = self.helper_methods()
            for (wb, bb, st) in self.field_writes("to_execute"):
                if wb in hm and st["lhs"]["proj"] and st["rv"]["k"] == "use" and st["rv"]["op"]["k"] == "const" and st["rv"]["op"]["val"] == "true" and wb not in out:
                    out.append(wb)
            return out
        return self._memo("inv_notifiers", go)

    def start_markers(self):
        def go():
            out = []
            for (wb, bb, st) in self.field_writes("to_execute"):
                if st["rv"]["k"] == "use" and st["rv"]["op"]["k"] == "const" and st["rv"]["op"]["val"] == "false" and wb not in out:
                    out.append(wb)
            return out
        return self._memo("start_markers", go)

    def success_notifiers(self):
        """helper methods that construct Ok and write `executed` from a non-constant"""
        def go():
            out = []
            hm = {h.name: h for h in self.helper_methods()}
            def fans_out(b):
                # the message goes to every registered requester (a loop over `requesters` here or in a helper it calls), not to one given actor
                names = ({b.name, self.fn_of(b).name} | self.f.cg.reach([self.fn_of(b).name], cross_spawn=False)) & set(hm)
                for n in names:
                    co = self.f.coroutine_of(n) or hm[n]
                    for x in (hm[n], co, self.V(co)):
                        if any(atom_has_field(l[5], "requesters", "TargetActorHelper") for l in for_loops(x)):
                            return True
                return False
            builders = [b for (b, sites) in self.bodies_constructing("ActorInputMessage", "Ok")]
            # a constructor helper (`fn ok_message(..) -> ActorInputMessage`): the bodies that ask it for the message build Ok as well
            ctor_names = {b.name for b in builders if not b.coroutine and b.kind in ("Fn", "AssocFn") and "ActorInputMessage" in b.ret}
            via = [x for x in self.helper_methods() if any(callee_base(t) in ctor_names for _, t in x.calls()) and x.name not in ctor_names]
            def loops_over_requesters(n):
                if n not in hm:
                    return False
                co = self.f.coroutine_of(n) or hm[n]
                return any(any(atom_has_field(l[5], "requesters", "TargetActorHelper") for l in for_loops(x)) for x in (hm[n], co, self.V(co)))
            def ok_goes_to_all(b):
                """the Ok this body builds (or obtains from a constructor helper) is what gets fanned out: it is built inside a loop over `requesters`, or handed
                to a helper that loops over them - a handler that answers one given requester with an Ok is not a success notifier"""
                srcs = [st["lhs"]["local"] for (_, st) in b.aggregates("ActorInputMessage", "Ok")] + \
                       [t["dest"]["local"] for _, t in b.calls() if callee_base(t) in ctor_names and t.get("dest")]
                in_loop = {bb for l in for_loops(b) if atom_has_field(l[5], "requesters", "TargetActorHelper") for bb in l[4]}
                if any(bb in in_loop for (bb, _) in b.aggregates("ActorInputMessage", "Ok")):
                    return True
                for l0 in srcs:
                    fl = b.prov.flows_forward(l0)
                    for _, t in b.calls():
                        if any(operand_local(a) in fl for a in t["args"]) and (loops_over_requesters(callee_base(t)) or loops_over_requesters(self.fn_of(self.f.bodies[callee_base(t)]).name if callee_base(t) in self.f.bodies else "")):
                            return True
                return False
            for b in builders + [x for x in via if x not in builders]:
                if b in self.helper_methods() and b.name not in ctor_names and fans_out(b) and ok_goes_to_all(b):
                    out.append(b)
            # a handler extracted from an actor (`fn handle_outcome(helper: &mut Helper, ..)`) that merely calls the notifier contains its code: keep the innermost
            inner = {x.name for x in self.minimal([self.f.bodies[b.name] for b in out])}
            return [b for b in out if b.name in inner]
        return self._memo("succ_notifiers", go)

    def failure_notifiers(self):
        return self._memo("fail_notifiers", lambda: [b for (b, s) in self.bodies_constructing("TargetActorOutputMessage", "TargetExecutionError")])

    def senders_to_actor(self):
        """bodies that wrap a message into TargetActorOutputMessage::MessageActor (the `send_to_actor` role)"""
        return self._memo("send_to_actor", lambda: [b for (b, s) in self.bodies_constructing("TargetActorOutputMessage", "MessageActor")])

    def fn_of(self, body):
        """the `fn` whose async body this is (or the body itself)"""
        if body.coroutine and body.parent and body.parent in self.f.bodies:
            return self.f.bodies[body.parent]
        return body

    def callers_of(self, body, prefer=None):
        """[(caller view, bb, term)] of every call of the fn of this body. The call site is reported inside the innermost preferred role view that
        contains it (default: actors and relays), otherwise inside the root view containing it - so that the guards of the real caller are visible
        even when the call sits in an extracted helper."""
        fn = self.fn_of(body)
        prefer = prefer if prefer is not None else (self.actors() + self.relays())
        out = []
        seen = set()
        for (cn, bb) in self.f.cg.call_sites.get(fn.name, ()):
            if bb is None:
                continue
            raw = self.f.bodies[cn]
            if raw.term(bb)["k"] != "call":
                continue
            copies = [(v, nb) for (v, nb) in self.sites_in(prefer, raw, bb) if self.is_role(prefer, v)]
            if not copies:
                # not inside a preferred role: every root view that contains the call site
                for root in self.containers(raw):
                    rv = self.V(root)
                    copies += [(rv, x) for x in (rv.locate_all(raw.name, bb) if root.name != raw.name else [bb])]
            if not copies:
                copies = [(self.V(raw), bb)]
            for (v, nb) in copies:
                if (v.name, nb) in seen:
                    continue
                seen.add((v.name, nb))
                out.append((v, nb, v.term(nb)))
        return out

    # ---- process / incremental roles
    def spawn_raw(self):
        """[(raw body, bb, term)] of every process spawn API call"""
        return self._memo("spawn_raw", lambda: [(b, bb, t) for b in self.f.user_bodies() for bb, t in b.calls() if is_process_spawn(t["callee"]["base"])])

    def spawn_sites(self):
        """[(view, bb, term)] of every process spawn API call, located in the root view that contains it (a spawn extracted into a helper is judged
        in the function that uses its result)"""
        def go():
            out = []
            for b in self.f.user_bodies():
                for bb, t in b.calls():
                    if is_process_spawn(t["callee"]["base"]):
                        root = self.container(b)
                        rv = self.V(root)
                        nb = bb if root.name == b.name else rv.locate(b.name, bb)
                        if nb is None:
                            rv, nb = self.V(b), bb
                        out.append((rv, nb, rv.term(nb)))
            return out
        return self._memo("spawn_sites", go)

    def script_runners(self):
        """minimal views that spawn a process and construct BuildTerminationReport::Completed"""
        def go():
            cands = [b for b in self.f.user_bodies() if list(self.V(b).aggregates("BuildTerminationReport", "Completed")) and
                     any(is_process_spawn(t["callee"]["base"]) for _, t in self.V(b).calls())]
            return [self.V(b) for b in self.minimal(cands)]
        return self._memo("script_runners", go)

    def incremental_runners(self):
        """minimal views that construct IncrementalRunResult::Completed and ::Skipped"""
        def go():
            cands = [b for b in self.f.user_bodies() if list(self.V(b).aggregates("IncrementalRunResult", "Completed")) and list(self.V(b).aggregates("IncrementalRunResult", "Skipped"))]
            return [self.V(b) for b in self.minimal(cands)]
        return self._memo("incr_runners", go)

    def state_path_fns(self):
        """local fns whose return value derives from the `.checksums` literal"""
        def go():
            out = []
            for b in self.f.code_bodies():
                if b.coroutine or b.kind == "Closure":
                    continue
                at = b.prov.atoms(0, interproc=False)
                # (the extension may be a named constant: `format!("{}.{}", id, CHECKSUMS_FILE_EXTENSION)`)
                named = [(self.f.const_value(a[1].split("::")[-1]) or "").strip('"') for a in at if a[0] == "constdef"]
                if "Path" in b.ret and (any(".checksums" in c for c in atom_consts(at)) or any(c in ("checksums", ".checksums") for c in named)):
                    out.append(b)
            return out
        return self._memo("state_path", go)

    def work_dir_path_fns(self):
        def go():
            out = []
            for b in self.f.code_bodies():
                if b.coroutine or b.kind == "Closure" or "bool" == b.ret:
                    continue
                at = b.prov.atoms(0, interproc=False)
                if any(path_ends(a[1], "WORK_DIR_NAME") for a in at if a[0] == "constdef") and "Path" in b.ret:
                    out.append(b)
            return out
        return self._memo("work_dir_path", go)

    def fs_sites(self, classify):
        """[(body, bb, term, class)] for fs API calls; classify(base) -> class or None"""
        out = []
        for b in self.f.code_bodies():
            for bb, t in b.calls():
                c = classify(t["callee"]["base"])
                if c:
                    out.append((b, bb, t, c))
        return out

    def state_fns(self, api_pred):
        """sites (body, bb, term) at which an fs API matching api_pred receives a path deriving from the state path fn. Bodies are looked at as views,
        so a decode/encode step extracted into a named function called from the blocking closure is still found (each site once)."""
        spf = {b.name for b in self.state_path_fns()}
        out = []
        seen = set()
        for raw in self.f.user_bodies():
            b = self.V(raw)
            for bb, t in b.calls():
                if api_pred(t["callee"]["base"]) and t["args"]:
                    key = (b.origin(bb), b.blocks[bb].get("orig_id", bb))
                    at = b.prov.operand_atoms(t["args"][0])
                    if atom_callres(at) & spf or self._closure_captures_from(b, spf):
                        if key not in seen:
                            seen.add(key)
                            out.append((b, bb, t))
        return out

    def _closure_captures_from(self, b, fn_names, depth=0):
        """a closure body: does one of its captured upvars derive (in the parent) from a call to one of fn_names?"""
        if b.kind != "Closure" or not b.parent or b.parent not in self.f.bodies or depth > 3:
            return False
        p = self.f.bodies[b.parent]
        for blk in p.normal_blocks():
            for st in blk["stmts"]:
                rv = st["rv"]
                if rv["k"] == "agg" and (rv.get("closure") == b.name or rv.get("coroutine") == b.name):
                    for o in rv["ops"]:
                        if atom_callres(p.prov.operand_atoms(o)) & fn_names:
                            return True
        return self._closure_captures_from(p, fn_names, depth + 1)

    def outer_fn(self, b):
        """outermost enclosing fn item of a closure/coroutine body"""
        b = self.f.bodies.get(b.name, b)
        while b.kind == "Closure" and b.parent in self.f.bodies:
            b = self.f.bodies[b.parent]
        return b

    def root_env_fields(self, view, op):
        """names of the captured variables of the view's *own* environment that operand `op` derives from directly or through spliced-in helpers
        (a helper's parameters are resolved to the arguments it was called with)"""
        out = set()
        l = operand_local(op)
        if l is None:
            return out

        seen = set()

        def walk(os, depth=0):
            for o in os:
                if o[0] == "field" and o[1] and any(x[0] == "param" and x[1] == 1 for x in o[2]):
                    out.add(o[1][0])
                elif o[0] == "field" and depth < 40:
                    walk(o[2], depth + 1)
                elif o[0] in ("not",) and depth < 40:
                    walk(o[1], depth + 1)
                elif o[0] == "await" and o[3].producer is not None and depth < 40:
                    for a in o[3].producer[1]["args"]:
                        al = operand_local(a)
                        if al is not None and al not in seen:
                            seen.add(al)
                            walk(origins(view, al), depth + 1)
                elif o[0] == "call" and depth < 40:
                    for a in o[3]["args"]:
                        al = operand_local(a)
                        if al is not None and al not in seen:
                            seen.add(al)
                            walk(origins(view, al), depth + 1)
                elif o[0] == "agg" and depth < 40:
                    for a in o[4]["rv"]["ops"]:
                        al = operand_local(a)
                        if al is not None and al not in seen:
                            seen.add(al)
                            walk(origins(view, al), depth + 1)
                        if a["k"] in ("copy", "move") and [pr for pr in a["place"]["proj"] if pr["k"] == "field"]:
                            walk([("field", tuple(pr["name"] for pr in a["place"]["proj"] if pr["k"] == "field"), tuple(origins(view, a["place"]["local"])))], depth + 1)
                elif o[0] == "tuple" and depth < 40:
                    for el in o[1]:
                        walk(el, depth + 1)
        walk(origins(view, l))
        return out

    def listers(self):
        return self._memo("listers", lambda: sorted({self.outer_fn(b).name for (b, bb, t, c) in self.fs_sites(lambda n: "walk" if n in ("walkdir::WalkDir::new",) or n.endswith("fs::read_dir") else None)}))

    def extension_predicates(self):
        def go():
            out = []
            for b in self.f.code_bodies():
                if b.argc == 2 and b.ret == "bool" and b.kind in ("Fn", "AssocFn") and "Path" in b.locals[1]["ty"] and "BTreeSet<std::string::String>" in b.locals[2]["ty"]:
                    out.append(b)
            # a function of the same shape that merely combines the predicate with something else (`is_file() && matches_extensions(..)`) is a user
            # of the predicate, not a second predicate: keep the innermost ones
            names = {b.name for b in out}
            return [b for b in out if not ((self.f.cg.reach([b.name], cross_spawn=False) - {b.name}) & names)]
        return self._memo("ext_pred", go)

    def notify_callbacks(self):
        """closures passed to notify::Watcher::new"""
        def go():
            out = []
            for b in self.f.code_bodies():
                for bb, t in b.calls():
                    if t["callee"]["base"].endswith("Watcher::new") and "notify" in t["callee"]["declared"] and t["args"] and t["args"][0]["k"] != "const":
                        for kind, x, pb in b.prov.direct_producers(t["args"][0]["place"]["local"]):
                            if kind == "agg" and x["rv"].get("closure") in self.f.bodies:
                                out.append((self.V(self.f.bodies[x["rv"]["closure"]]), b, bb))
            return out
        return self._memo("notify_cb", go)

    def recursive_in_view(self, b):
        """the fn calls itself, directly or through helpers spliced into its view (mutual recursion through a single-call-site helper)"""
        v = self.V(b)
        return any(callee_base(t) == b.name for _, t in v.calls())

    def resolvers(self):
        """recursive local fns whose view inserts into the map of resolved targets (HashMap<TargetId, Target>); looked at as views"""
        def go():
            out = []
            for b in self.f.user_bodies():
                if b.kind not in ("Fn", "AssocFn") or not self.recursive_in_view(b):
                    continue
                v = self.V(b)
                if any(re.search(r"HashMap::<[\w:]*TargetId, [\w:]*Target>::insert$", callee_decl(t)) for _, t in v.calls()):
                    out.append(b)
            return [self.V(b) for b in self.outermost(out)]
        return self._memo("resolvers", go)

    def launch_sites(self):
        """[(root view, bb, term)] of every creation of an actor's run future, seen in the root view that contains it (so that the registry's guards,
        the watcher construction and the storing of the handles are visible together, whatever helper functions they were split into)"""
        def go():
            out = []
            seen = set()
            for a in self.actors():
                for (v, bb, t) in self.callers_of(a, prefer=[]):
                    if (v.name, bb) not in seen:
                        seen.add((v.name, bb))
                        out.append((v, bb, t))
            return out
        return self._memo("launch_sites", go)

    def launchers(self):
        """root views that create an actor's run future"""
        def go():
            out = []
            for (v, bb, t) in self.launch_sites():
                if not any(x.name == v.name for x in out):
                    out.append(v)
            return out
        return self._memo("launchers", go)

    def main_body(self):
        b = self.f.bodies.get("main")
        if not b:
            raise AnchorLost("fn main")
        return self.V(b)

    def main_async(self):
        """the async block main hands to block_on"""
        def go():
            m = self.main_body()
            cands = sorted({n for n, uses in self.f.cg.spawn_roots.items() for (how, inb, bb) in uses if how == "block_on" and inb == m.name})
            if not cands:
                raise AnchorLost("async block passed to task::block_on in main")
            # several blocks (a preliminary step run on its own): the main one is the one that drives the engine, i.e. reaches the most code
            best = max(cands, key=lambda n: (len(self.f.cg.reach([n])), n))
            return self.V(self.f.bodies[best])
        return self._memo("main_async", go)


PROCESS_SPAWN = re.compile(r"^(async_process|std::process|async_std::process)::Command::(spawn|output|status)$")
PROCESS_WAIT = re.compile(r"^(async_process|std::process|async_std::process)::Child::(status|wait|output|wait_with_output|try_status)$")
PROCESS_KILL = re.compile(r"^(async_process|std::process|async_std::process)::Child::kill$")


def is_process_spawn(n):
    return bool(PROCESS_SPAWN.match(n))


def is_process_wait(n):
    return bool(PROCESS_WAIT.match(n)) or bool(re.match(r"^(async_process|std::process)::Command::(output|status)$", n))


def is_process_kill(n):
    return bool(PROCESS_KILL.match(n))


FS_DELETE = re.compile(r"^(async_std|std|tokio)::fs::(remove_file|remove_dir_all|remove_dir)$")
FS_WRITE = re.compile(r"^(async_std|std)::fs::(write|create_dir|create_dir_all|rename|copy|hard_link|set_permissions)$|^(async_std|std)::fs::(File::create|File::create_new|OpenOptions::open|DirBuilder::create)$|^(async_std::fs::file::File|std::fs::File)::create$")


def is_fs_delete(n):
    return bool(FS_DELETE.match(n))


def is_fs_write(n):
    return bool(FS_WRITE.match(n))
