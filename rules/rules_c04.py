"""C04 - one-shot runs terminate: no lost wake-up, no deadlock (shared with C06, C10, C17, C20)."""
from common import *
from engine import rule, AnchorLost
from rules_c01 import classify_ok_site, classify_msg_site, set_mutations, _must_pass


def requester_registrations(actor, R):
    """insert calls on a set reached from helper.requesters inside region R"""
    return [m for m in set_mutations(actor, "requesters") if m[2] == "insert" and m[0] in R]


@rule("C04.ACK-LATE", ["C04", "C20"], """in every actor the handler of Requested{K}, for a kind K the actor registers requesters for, contains a reply
      Ok{K} to the message's requester guarded by `executed` (I1) or by an empty pending set (I3): a requester that registers after the target
      finished is answered""", "K8", floor=3)
def ack_late(ctx):
    r = ctx.r
    actors = r.actors()
    ctx.need(len(actors) >= 3, "three actor bodies")
    for a in actors:
        lab = r.actor_label(a)
        is_agg = not r.actor_kinds(a)
        Rreq = msg_region(a, "Requested")
        ctx.need(Rreq, f"Requested handler in {lab}")
        for k, R in kind_subregions(a, Rreq, "Requested").items():
            regs = requester_registrations(a, R)
            if not regs:
                continue  # foreign kind: C04.FOREIGN-KIND-REPLY
            props = ["C04", "C20"] if is_agg else ["C04"]
            good = []
            why = "no send of ActorInputMessage::Ok to `requester` on any path of the handler"
            for (bb, t, dest_at, msg) in sends_via(r, a, R):
                if not msg_field_atoms("Requested", "requester")(dest_at):
                    continue
                if not msg or msg.variant != "Ok":
                    continue
                kk = msg.kinds
                if k != "*" and kk != {k}:
                    why = f"the reply carries kind {sorted(kk)} instead of {k}"
                    continue
                if k == "*" and "msg" not in kk:
                    why = "the reply does not carry the kind of the request"
                    continue
                idiom, w = classify_msg_site(r, a, msg)
                if idiom not in ("I1", "I3"):
                    why = f"the reply is not guarded by `executed` or by an empty pending set ({w})"
                    continue
                if not is_awaited(a, bb):
                    why = "the reply future is never awaited"
                    continue
                extra = decisions_to(a, R, bb, [(cond_is_insert_result("requesters"), True), (desc_is_field_read("executed"), True), (cond_is_empty("unavailable_dependencies"), True),
                                                 (cond_len_eq_one("requesters"), None)])
                if extra:
                    why = "the reply depends on a further condition: " + fmt_conds(extra)
                    continue
                good.append((bb, idiom))
            ctx.check(bool(good), f"{lab}/Requested.{k}", [site(a, g[0]) for g in good] or [site(a, regs[0][0])],
                      f"the handler registers the requester but never answers it when the target is already done: {why}", props=props,
                      detail=",".join(g[1] for g in good))


@rule("C04.FOREIGN-KIND-REPLY", ["C04"], """an actor that executes a single kind answers a request for the other kind at once with
      Ok{other, actual: false}, on every path of that handler""", "K1", floor=2)
def foreign_kind_reply(ctx):
    r = ctx.r
    for a in r.actors():
        kinds = r.actor_kinds(a)
        if not kinds:
            continue
        lab = r.actor_label(a)
        Rreq = msg_region(a, "Requested")
        subs = kind_subregions(a, Rreq, "Requested")
        for other in {"Build", "Service"} - kinds:
            R = subs.get(other)
            if R is None:
                # no dedicated arm: the generic handler must register (then ACK-LATE applies) - otherwise the request is lost
                regs = requester_registrations(a, subs.get("*", set()))
                ctx.check(bool(regs), f"{lab}/Requested.{other}", [a.loc()], f"requests for {other} are neither answered nor registered")
                continue
            good = []
            for (bb, t, dest_at, msg) in sends_via(r, a, R):
                # (inside the handler of kind `other` a reply carrying the request's own kind carries `other`)
                mk = ((msg.kinds - {"msg", "param"}) | {other}) if (msg and "msg" in msg.kinds) else (msg.kinds if msg else set())
                if msg_field_atoms("Requested", "requester")(dest_at) and msg and msg.variant == "Ok" \
                        and mk == {other} and is_awaited(a, bb) and _must_pass(a, R, bb):
                    good.append(bb)
            ctx.check(bool(good), f"{lab}/Requested.{other}", [site(a, b) for b in good] or [a.loc(min(R))],
                      f"a request for {other} is not answered with Ok{{{other}}} to the requester on every path: the requester would wait forever")


def forward_fns(r):
    """local async fns that send an ActorInputMessage on an actor inbox (the relay's forward function)"""
    out = []
    for raw in r.f.user_bodies():
        if not raw.coroutine or r.is_role(r.actors(), raw):
            continue
        fn = r.fn_of(raw)
        if not (fn.argc >= 3 and re.search(r"&(mut )?[\w:]*TargetActors$", fn.locals[1]["ty"])):
            continue
        b = r.V(raw)   # the send itself may sit in a small helper (`deliver(handles, msg)`) spliced into the forward function
        for (bb, t, ty, how) in send_calls(b):
            if tyname(ty) == "ActorInputMessage":
                out.append((b, bb, t, how))
    return out


@rule("C04.RELAY-TOTAL", ["C04", "C06", "C13"], """every relay forwards every MessageActor{dest: Target(id), msg} to actor `id` with an awaited, non-lossy send""", "K1", floor=2)
def relay_total(ctx):
    r = ctx.r
    relays = r.relays()
    ctx.need(len(relays) >= 2, "two relay bodies (one-shot and watch)")
    fw = forward_fns(r)
    ctx.need(fw, "forward function (async fn of TargetActors sending an ActorInputMessage)")
    fw_names = {r.fn_of(b).name for (b, bb, t, how) in fw}
    for (b, bb, t, how) in fw:
        ctx.check(how == "send" and is_awaited(b, bb), f"forward/{short(b.name)}", [site(b, bb)],
                  f"the forward function uses `{how}`{'' if is_awaited(b, bb) else ' without awaiting it'}: a message can be dropped", props=["C04", "C06"])
    for rel in relays:
        is_watch = _is_watch_relay(r, rel)
        props = ["C06", "C13"] if is_watch else ["C04"]
        lab = short(r.fn_of(rel).name)
        Rm = variant_region(rel, "TargetActorOutputMessage", "MessageActor")
        ctx.need(Rm, f"MessageActor handler in {lab}")
        Rt = variant_region(rel, "ActorId", "Target", within=Rm)
        ctx.need(Rt, f"dest = Target(id) handler in {lab}")
        good = []
        for cb, t in calls_in(rel, Rt, lambda n: n in fw_names):
            msg_at = rel.prov.operand_atoms(t["args"][2]) if len(t["args"]) > 2 else set()
            id_at = rel.prov.operand_atoms(t["args"][1]) if len(t["args"]) > 1 else set()
            if ("variant", "MessageActor") in msg_at and atom_has_field(msg_at, "msg") and ("variant", "Target") in id_at and is_awaited(rel, cb) and _must_pass(rel, Rt, cb):
                good.append(cb)
        ctx.check(bool(good), f"{lab}/MessageActor.Target", [site(rel, b) for b in good] or [rel.loc(min(Rt))],
                  "a message addressed to a target actor is not forwarded (awaited, with the message's own `msg` and id) on every path", props=props)
        # ... and every MessageActor reaches the test of its destination: nothing before it (a de-duplication, a filter on the message) lets the handler
        # finish without having looked at `dest`
        dest_tests = {e.src for e in rel.edges if e.src in Rm and e.label and e.label[0] == "variant" and path_ends(e.label[1], "ActorId")}
        ctx.check(any(_must_pass(rel, Rm, sb) for sb in dest_tests), f"{lab}/MessageActor.every-message", [site(rel, sb) for sb in sorted(dest_tests)] or [rel.loc(min(Rm))],
                  "some MessageActor leaves the handler before its destination is looked at: the relay drops messages on a condition of its own", props=props)


def _is_watch_relay(r, rel):
    """the relay entered under WatchOption::Enabled"""
    fn = r.fn_of(rel)
    for (cb, bb, t) in r.callers_of(rel):
        Ren = variant_region(cb, "WatchOption", "Enabled")
        if bb in Ren:
            return True
    return False


PROTOCOL_TYPES = ("ActorInputMessage", "TargetActorOutputMessage")


def lossy_sends(f):
    """try_send / non-awaited send on the two protocol channels: [(body, bb, how)]"""
    out = []
    for b in f.user_bodies():
        for (bb, t, ty, how) in send_calls(b):
            if tyname(ty) not in PROTOCOL_TYPES:
                continue
            if how in ("try_send", "force_send"):
                # accepted only when the Err edge keeps the message: the result is matched and something derived from it is used in a later call
                d = t["dest"]["local"]
                fl = b.prov.flows_forward(d)
                requeued = False
                for l in fl:
                    for kind, x, ub in b.prov.uses_of(l):
                        if kind == "call" and ub != bb and re.search(r"::(push|push_back|send|insert|extend)$", callee_base(x)):
                            requeued = True
                if not requeued:
                    out.append((b, bb, how))
            elif how == "send":
                if future_fate(b, bb) == "dropped":
                    out.append((b, bb, "send (future dropped)"))
    return out


@rule("C04.NO-LOSSY-SEND", ["C04"], """on the two protocol channels (actor inbox, actor output) a message may be delayed but never dropped:
      no `try_send` whose failure loses the message, no `send` future that is never polled""", "K4", floor=0)
def no_lossy_send(ctx):
    n_sends = 0
    for b in ctx.f.user_bodies():
        for (bb, t, ty, how) in send_calls(b):
            if tyname(ty) in PROTOCOL_TYPES:
                n_sends += 1
    # (5 on the reference tree: the actors' output send, the failure report, and three sends to actor inboxes - which a shared `deliver` helper may merge)
    ctx.need(n_sends >= 2, f"send sites on the protocol channels (found {n_sends}, 5 confirmed by hand)")
    bad = lossy_sends(ctx.f)
    for (b, bb, how) in bad:
        ctx.bad(f"{short(b.name)}/{how.split()[0]}", [site(b, bb)], f"`{how}` on a protocol channel can drop a message")
    if not bad:
        ctx.ok("protocol-channels", [f"{n_sends} send sites examined"], "all are awaited blocking sends")


# ------------------------------------------------------------------ wait-for graph (K7)
CHANNEL_CLASS = {
    "ActorInputMessage": ("data", "sent from handlers and loops; count grows with the graph"),
    "TargetActorOutputMessage": ("data", "sent from handlers and loops; count grows with the graph"),
    "TerminationMessage": ("one-shot", "each channel instance receives at most one message (one straight-line send in the ctrl-c task, one per handle in terminate(self)); capacity >= 1"),
    "TargetInvalidatedMessage": ("idempotent", "only ever try_send"),
    "BuildCancellationMessage": ("idempotent", "only ever try_send"),
}


def channel_creations(f):
    out = []
    for b in f.user_bodies():
        for bb, t in b.calls():
            base = t["callee"]["base"]
            if base in ("async_std::channel::bounded", "async_std::channel::unbounded", "async_channel::bounded", "async_channel::unbounded"):
                ty = t["callee"]["gargs"][0] if t["callee"]["gargs"] else "?"
                out.append((tyname(ty), base.split("::")[-1], b, bb))
    return out


def task_of_bodies(f):
    """body name -> set of task roots it belongs to (task membership does not cross a spawn edge)"""
    cg = f.cg
    out = {}
    roots = {}
    for root, uses in cg.spawn_roots.items():
        if all(how == "spawn_blocking" for how, _, _ in uses):
            continue
        roots[root] = uses
    for root in roots:
        for x in cg.reach([root], cross_spawn=False):
            out.setdefault(x, set()).add(root)
    return out, roots


@rule("C04.WAIT-FOR-ACYCLIC", ["C04", "C10", "C17"], """no cycle of tasks each blocked in an awaited `send` on a bounded data channel consumed by the next:
      (relay -> actor inbox -> actor -> output channel -> relay) must be broken by an unbounded side""", "K7", floor=1)
def wait_for_acyclic(ctx):
    f = ctx.f
    creations = channel_creations(f)
    ctx.need(len(creations) >= 5, f"channel creation sites (found {len(creations)}, 6 confirmed by hand)")
    bounded = {}
    for (ty, how, b, bb) in creations:
        if ty not in CHANNEL_CLASS:
            ctx.bad(f"unclassified-channel/{ty}", [site(b, bb)], f"a channel of message type {ty} is not in the classification table (data / one-shot / idempotent); fails closed")
            continue
        bounded.setdefault(ty, []).append((how, b, bb))
    task_of, roots = task_of_bodies(f)
    ctx.need(len(roots) >= 4, f"task roots (found {len(roots)})")
    # blocking data sends
    edges = {}
    for b in f.user_bodies():
        for (bb, t, ty, how) in send_calls(b):
            tn = tyname(ty)
            if how != "send" or CHANNEL_CLASS.get(tn, ("?",))[0] != "data":
                continue
            if not any(h == "bounded" for (h, _, _) in bounded.get(tn, [])):
                continue
            consumers = set()
            for cb in f.user_bodies():
                if any(tyname(rt) == tn for rt, _ in recv_types(cb)):
                    consumers |= task_of.get(cb.name, {cb.name})
            for src in task_of.get(b.name, {b.name}):
                for c in consumers:
                    edges.setdefault(src, {}).setdefault(c, []).append((tn, b, bb))
    # cycles (DFS)
    cycles = []
    nodes = sorted(edges)

    def dfs(start, cur, path, seen):
        for nxt in sorted(edges.get(cur, {})):
            if nxt == start:
                cycles.append(path + [nxt])
            elif nxt not in seen and nxt > start:
                dfs(start, nxt, path + [nxt], seen | {nxt})

    for n in nodes:
        dfs(n, n, [n], {n})
    n_edges = sum(len(v) for v in edges.values())
    if not cycles:
        ctx.ok("tasks", [f"{len(roots)} task roots, {len(creations)} channel creation sites, {n_edges} blocking data edges"],
               "bounded data classes: " + ",".join(sorted(t for t, v in bounded.items() if CHANNEL_CLASS.get(t, ("",))[0] == "data" and any(h == "bounded" for h, _, _ in v))))
    for cyc in cycles:
        sites = []
        desc = []
        for i in range(len(cyc) - 1):
            (tn, b, bb) = edges[cyc[i]][cyc[i + 1]][0]
            sites.append(site(b, bb))
            cr = [site(cb, cbb) for (h, cb, cbb) in bounded.get(tn, []) if h == "bounded"]
            desc.append(f"{short(cyc[i])} --send<{tn}> (bounded, created {cr[0] if cr else '?'})--> {short(cyc[i + 1])}")
        key = "cycle/" + "<->".join(sorted({_task_label(c) for c in cyc}))
        ctx.bad(key, sites, "cycle of blocking sends over bounded channels: " + " ; ".join(desc) + " ; neither sender polls its own inbox while blocked in the send")


def _task_label(n):
    m = re.search(r"(\w+)::run$", n)
    if m:
        return m.group(1)
    return short(n).replace("::{c0}", "")


@rule("C04.NO-DROPPED-FUTURE", ["C04"], """every call of a local async fn in actor, helper, relay, launcher and TargetActors bodies is awaited
      (or handed on): a protocol step that is built but never polled is a lost message""", "K1", floor=40)
def no_dropped_future(ctx):
    r = ctx.r
    f = ctx.f
    scope = set()
    for b in r.actors() + r.relays() + r.helper_methods():
        scope.add(b.name)
    for b in f.user_bodies():
        if "TargetActors" in b.name or b in r.launchers() or b.name.startswith("main") or re.search(r"TargetActors", r.fn_of(b).locals[1]["ty"] if r.fn_of(b).argc >= 1 else ""):
            scope.add(b.name)
    for n in list(scope):
        scope |= {x for x in f.cg.reach([n], cross_spawn=False) if x in f.bodies and not f.is_derived(f.bodies[x])}
    n_sites = 0
    for n in sorted(scope):
        b = f.bodies[n]
        for bb, t in b.calls():
            cn = t["callee"]["rbase"] or t["callee"]["base"]
            cb = f.bodies.get(cn)
            co = f.coroutine_of(cn)
            if cb is None or co is None or not co.coroutine:
                continue
            n_sites += 1
            fate = future_fate(b, bb)
            if fate == "dropped":
                ctx.bad(f"{short(b.name)}/{short(cn)}", [site(b, bb)], f"the future returned by `{short(cn)}` is never awaited: the step never runs")
            else:
                ctx.ok(f"{short(b.name)}/{short(cn)}@{bb}", [site(b, bb)], fate)


@rule("C04.FANOUT-COMPLETE", ["C04"], """the 'to all requesters' and 'to all dependencies' helpers send inside a loop over the whole set whose only exit is
      iterator exhaustion""", "K10", floor=2)
def fanout_complete(ctx):
    r = ctx.r
    for field in ("requesters", "dependencies"):
        fns = fanout_fns(r, field)
        ctx.need(fns, f"helper looping over `{field}` and sending to each")
        senders = {r.fn_of(b).name for b in r.senders_to_actor()}
        for b in fns:
            for (nbb, sbb, ne, se, blks, it_atoms) in for_loops(b):
                if not atom_has_field(it_atoms, field, "TargetActorHelper"):
                    continue
                exits = [e for bl in blks for e in b.succ.get(bl, ()) if e.dst not in blks and b.term(e.dst)["k"] != "unreachable"]
                other = [e for e in exits if not (ne is not None and e.src == ne.src and e.dst == ne.dst)]
                sends = calls_in(b, blks, lambda n: n in senders)
                awaited = all(is_awaited(b, sb) for sb, _ in sends)
                # the iterator must be over the whole collection: no take/skip/filter adaptors
                adapt = [a[1] for a in it_atoms if a[0] == "callres" and re.search(r"::(take|skip|filter|step_by|take_while|skip_while|nth)$", a[1])]
                ctx.check(not other and sends and awaited and not adapt, f"{short(b.name)}/{field}", [site(b, nbb)],
                          ("the loop can be left before the iterator is exhausted: " + ", ".join(repr(e) for e in other)) if other else
                          ("the iterator is restricted by " + ",".join(adapt) if adapt else "the send inside the loop is not awaited"))


@rule("C04.ROOT-BOOKKEEPING", ["C04", "C08", "C11", "C19", "C20"], """in the one-shot relay an Ok{Build|Service} addressed to Root removes the target from the corresponding set of
      unavailable roots, and the relay loop ends exactly when both sets are empty or a termination was received""", "K1", floor=3)
def root_bookkeeping(ctx):
    r = ctx.r
    rels = [x for x in r.relays() if not _is_watch_relay(r, x)]
    ctx.need(rels, "one-shot relay")
    for rel in rels:
        lab = short(r.fn_of(rel).name)
        Rm = variant_region(rel, "TargetActorOutputMessage", "MessageActor")
        Rroot = variant_region(rel, "ActorId", "Root", within=Rm)
        ctx.need(Rroot, "dest = Root handler in the one-shot relay")
        Rok = variant_region(rel, "ActorInputMessage", "Ok", within=Rroot)
        ctx.need(Rok, "Ok handler under dest = Root")
        subs = kind_subregions(rel, Rok, "Ok")
        removed_sets = {}
        for k in ("Build", "Service"):
            R = subs.get(k) or subs.get("*")
            rem = []
            for bb, t in calls_in(rel, R, lambda n: re.search(r"HashSet::<.*>::remove$|HashSet::<T, S>::remove$", n) is not None):
                at = rel.prov.operand_atoms(t["args"][1], interproc=False)
                if msg_field_atoms("Ok", "target_id")(at) and _must_pass(rel, R, bb):
                    rem.append(bb)
                    rl = operand_local(t["args"][0])
                    names = {a[1] for a in rel.prov.atoms(rl, interproc=False) if a[0] == "localname"}
                    removed_sets[k] = (rl, names)
            ctx.check(bool(rem), f"{lab}/Ok.{k}", [site(rel, b) for b in rem] or [rel.loc(min(R))],
                      f"an Ok{{{k}}} addressed to Root does not remove the target from the unavailable-roots set on every path: the run would never be considered complete (or, counted instead of recorded per target, be considered complete too early)",
                      props=["C04", "C08", "C20"] + (["C11"] if k == "Service" else []))
            whole = [bb for bb in rem if re.search(r"HashSet::<[\w:&' ]*TargetId[,>]", callee_decl(rel.term(bb)))]
            if rem:
                ctx.check(len(whole) == len(rem), f"{lab}/Ok.{k}/whole-identity", [site(rel, b) for b in rem],
                          "the unavailable-roots set is keyed by a component of the target identity (e.g. the bare name): two requested targets with the same name in different projects "
                          "collapse into one entry and the run ends when the first of them is done", props=["C04", "C08", "C19"])
        # loop condition: the relay's outer loop exit must test is_empty of both root sets and the termination flag
        loops = rel.natural_loops()
        big = max(loops, key=lambda l: len(l[1])) if loops else None
        ctx.need(big, "relay loop")
        h, blks, exits = big
        tested = set()
        for e in exits:
            if e.label and e.label[0] == "bool" and e.label[2] is not None:
                for d in bool_atom_desc(rel, e.label[2]):
                    _collect_tests(d, tested)
        # walk the condition chain: bool switches inside the loop header region that lead to an exit
        for e in rel.edges:
            if e.src in blks and e.label and e.label[0] == "bool" and e.label[2] is not None and any(x.src == e.src for x in exits):
                for d in bool_atom_desc(rel, e.label[2]):
                    _collect_tests(d, tested)
        names = set()
        for (k, (rl, nm)) in removed_sets.items():
            names |= nm
        empt = {t for t in tested if t[0] == "is_empty"}
        both = sum(1 for k, (rl, nm) in removed_sets.items() if any(("is_empty", n) in tested for n in nm)) if removed_sets else 0
        ctx.check(both >= 2, f"{lab}/loop-condition", [rel.loc(h)],
                  f"the relay loop's exit condition does not test the emptiness of both unavailable-root sets (tests seen: {sorted(tested)})", props=["C04", "C08"])
        # ... exactly: every way of leaving the loop through its condition has seen both sets empty, or a flag (the termination) set - not one set only, not
        # "some service is already up"
        def empties(nm):
            def pred(o):
                if o[0] != "call" or not o[1].endswith("::is_empty"):
                    return False
                return bool({a[1] for a in rel.prov.operand_atoms(o[3]["args"][0], interproc=False) if a[0] == "localname"} & nm)
            return pred
        def any_empty(o):
            return o[0] == "call" and o[1].endswith("::is_empty")
        early = []
        common_names = set.intersection(*[nm for (rl, nm) in removed_sets.values()]) if removed_sets else set()
        removed_sets = {k_: (rl, nm - common_names) for k_, (rl, nm) in removed_sets.items()}
        if len(removed_sets) == 2 and all(nm for (rl, nm) in removed_sets.values()):
            for e in exits:
                if not (e.label and e.label[0] == "bool"):
                    continue
                for p_ in enumerate_paths(rel, start=h, stop_at={e.src}, within=blks):
                    if not p_ and e.src != h:
                        continue
                    if p_ and p_[-1].dst != e.src:
                        continue
                    facts = path_facts(rel, p_ + [e])
                    all_empty = all(has_fact(facts, "bool", True, empties(nm)) for (rl, nm) in removed_sets.values())
                    # the decisive (last) test of an exit that has not seen both sets empty is a flag, not the emptiness of some set
                    k_, v_, orig, _ = facts[-1]
                    flagged = k_ == "bool" and not origin_matches(orig, any_empty, through_not=True)
                    if not (all_empty or flagged):
                        early.append(e)
        ctx.check(not early, f"{lab}/loop-exit-exact", [site(rel, e.src) for e in early] or [rel.loc(h)],
                  "the relay loop can be left although a requested build or service has not reported yet (one set empty, or another condition, is enough): messages stop being relayed "
                  "and the remaining targets are never started", props=["C04", "C11", "C20"])


def _collect_tests(d, out):
    if d[0] == "not":
        for i in d[1]:
            _collect_tests(i, out)
    elif d[0] == "call" and d[1].endswith("::is_empty"):
        for a in (d[2][0] if d[2] else ()):
            if a[0] == "localname":
                out.add(("is_empty", a[1]))
    elif d[0] == "field":
        out.add(("field", d[1]))


@rule("C04.REQUEST-DEPS", ["C04", "C17", "C20"], """the handler of a request for an executed kind requests the actor's dependencies for both kinds (build/service actors) or for
      the incoming kind (aggregate) when the first requester registers; engine::run requests every root for both kinds before relaying""", "K1", floor=4)
def request_deps(ctx):
    r = ctx.r
    f = ctx.f
    # the "request dependencies" role: helper method constructing Requested and fanning out to dependencies
    req_fns = [b for (b, s) in r.bodies_constructing("ActorInputMessage", "Requested") if b in r.helper_methods()]
    ctx.need(req_fns, "helper that constructs Requested for the dependencies")
    for a in r.actors():
        lab = r.actor_label(a)
        kinds = r.actor_kinds(a)
        Rreq = msg_region(a, "Requested")
        for k, R in kind_subregions(a, Rreq, "Requested").items():
            if not requester_registrations(a, R):
                continue
            calls = calls_to_role(r, a, req_fns, R)
            got = set()
            for bb, t in calls:
                extra = decisions_to(a, R, bb, [(cond_is_insert_result("requesters"), True), (cond_len_eq_one("requesters", k), True)])   # "first requester *of this kind*"
                if extra:
                    ctx.bad(f"{lab}/Requested.{k}/guard@{bb}", [site(a, bb)], "the dependencies are requested only under a further condition (" + fmt_conds(extra) + "): with it false they are never requested (or requested later, behind targets they do not depend on) and the target waits",
                            props=["C04", "C17"] + (["C20"] if not kinds else []))
                    continue
                if is_awaited(a, bb):
                    got |= kind_of_operand(a, t["args"][1]) if len(t["args"]) > 1 else set()
            if kinds:
                ctx.check({"Build", "Service"} <= got, f"{lab}/Requested.{k}", [site(a, c[0]) for c in calls] or [a.loc(min(R))],
                          f"the dependencies are requested for {sorted(got)} only: a dependency of the missing kind never starts (or only later, behind dependencies it does not depend on) and the target waits", props=["C04", "C17"])
            else:
                ctx.check("msg" in got, f"{lab}/Requested.{k}", [site(a, c[0]) for c in calls] or [a.loc(min(R))],
                          f"the aggregate does not request its dependencies with the incoming kind (got {sorted(got)})", props=["C04", "C20"])
    # roots requested for both kinds
    root_req = []
    for b in f.user_bodies():
        for (bb, st) in b.aggregates("ActorInputMessage", "Requested"):
            rq = agg_field_op(st, "requester")
            if rq is not None and "Root" in atom_aggs(b.prov.operand_atoms(rq), "ActorId"):
                root_req.append((b, bb, st))
    ctx.need(root_req, "construction of Requested{requester: Root}")
    for (b, bb, st) in root_req:
        # the kind must range over both constants
        kat = b.prov.operand_atoms(agg_field_op(st, "kind"))
        kinds = atom_aggs(kat, "ExecutionKind")
        # a constructor helper (`fn requested_by_root(kind)`): the kinds are what its callers pass
        for a in b.prov.operand_atoms(agg_field_op(st, "kind"), interproc=False):
            if a[0] == "param" and not b.coroutine:
                for (cv, cbb, ct) in r.callers_of(b, prefer=[]):
                    if a[1] - 1 < len(ct["args"]):
                        kinds |= atom_aggs(cv.prov.operand_atoms(ct["args"][a[1] - 1]), "ExecutionKind")
        if not {"Build", "Service"} <= kinds and b.kind == "Closure" and b.parent in f.bodies:
            # built in a closure mapped over a literal list of kinds: `[Build, Service].iter().map(|&kind| Requested { kind, .. })`
            pb = f.bodies[b.parent]
            for blk in pb.normal_blocks():
                for st2 in blk["stmts"]:
                    if st2["rv"]["k"] == "agg" and st2["rv"].get("closure") == b.name:
                        fl2 = pb.prov.flows_forward(st2["lhs"]["local"])
                        for cb2, ct2 in pb.calls():
                            if any(operand_local(a) in fl2 for a in ct2["args"][1:]) and re.search(r"Iterator>?::(map|for_each|flat_map)(::<.*>)?$", callee_decl(ct2)):
                                kinds |= atom_aggs(pb.prov.operand_atoms(ct2["args"][0]), "ExecutionKind")
        ctx.check({"Build", "Service"} <= kinds, f"root-request/{short(b.name)}", [site(b, bb)],
                  f"root targets are requested for {sorted(kinds)} only", props=["C04"])


@rule("C04.MESSAGE-IDENTITY", ["C04", "C01", "C06"], """an acknowledgement or an out-of-date notice names its sender: the `target_id` of every Ok / Invalidated an actor builds is the actor's own
      id (the helper's `target_id`), and the requester named in a Requested / Unrequested sent to a dependency is the actor itself - receivers key their pending sets on it""", "K5", floor=4)
def message_identity(ctx):
    r = ctx.r
    n = 0
    for variant in ("Ok", "Invalidated"):
        for (b, sites) in r.bodies_constructing("ActorInputMessage", variant):
            for (bb, st) in sites:
                op = agg_field_op(st, "target_id")
                if op is None:
                    continue
                n += 1
                at = b.prov.operand_atoms(op, interproc=False)
                own = atom_has_field(b.prov.operand_atoms(op), "target_id", "TargetActorHelper")   # (through an accessor such as `self.id()`)
                foreign = atom_has_field(at, "dependencies", "TargetActorHelper") or any(a[0] == "field" and path_ends(a[1], "ActorInputMessage") for a in at) or \
                    atom_has_field(at, "unavailable_dependencies", "TargetActorHelper")
                ctx.check(own and not foreign, f"{short(b.name)}/{variant}@{[s_[0] for s_ in sites].index(bb)}", [site(b, bb)],
                          f"an {variant} message does not carry the sender's own target id: the receiver updates the pending entry of another target (or of none) and waits forever",
                          props=["C04", "C01"] if variant == "Ok" else ["C04", "C06"])
    for variant in ("Requested", "Unrequested"):
        for (b, sites) in r.bodies_constructing("ActorInputMessage", variant):
            if b not in r.helper_methods():
                continue
            for (bb, st) in sites:
                op = agg_field_op(st, "requester")
                if op is None:
                    continue
                n += 1
                at = b.prov.operand_atoms(op)   # (through an accessor such as `self.actor_id()`)
                ctx.check(atom_has_field(at, "target_id", "TargetActorHelper") and "Target" in atom_aggs(at, "ActorId"), f"{short(b.name)}/{variant}@{[s_[0] for s_ in sites].index(bb)}", [site(b, bb)],
                          f"a {variant} sent to a dependency does not name the sending actor as requester: the dependency's answer goes elsewhere", props=["C04"])
    ctx.need(n >= 4, "constructions of protocol messages carrying an identity")


@rule("C04.START-LIVE", ["C04", "C06"], """a start site runs whenever the readiness predicate holds (and no build is in flight): no further condition guards it, otherwise a ready
      target may never start and its requesters wait forever""", "K1", floor=2)
def start_live(ctx):
    from rules_c01 import start_sites
    r = ctx.r
    names = {b.name for b in r.readiness_predicates()}
    for a in r.actors():
        if not r.actor_kinds(a):
            continue
        for (bb, t, what) in start_sites(r, a):
            conds = dominating_conditions(a, bb)
            extra = conditions_within(conds, [(lambda d: d[0] == "call" and d[1] in names, True), (lambda d: d[0] == "call" and d[1].endswith("::is_none"), True), (lambda d: d[0] == "call" and d[1].endswith("::is_some"), False)])
            # the exit condition of a small loop that precedes the start (draining a queue: `while rx.try_recv().is_ok() {}`) is passed sooner or later, it does
            # not make the start depend on anything
            inner_loops = [(h_, blks_) for (h_, blks_, ex_) in a.natural_loops() if bb not in blks_ and len(blks_) <= 40]
            extra = [(e, descs, pol) for (e, descs, pol) in extra if not any(e.src in blks_ and e.dst not in blks_ for (h_, blks_) in inner_loops)]
            ctx.check(not extra, f"{r.actor_label(a)}/{short(callee_base(t))}", [site(a, bb)], "a start site is guarded by a condition beyond readiness / not-in-flight: " + fmt_conds(extra))


@rule("C04.SUCCESS-SETS-EXECUTED", ["C04"], """every successful outcome (skipped, completed, service started) goes through the success notifier that records the target as executed: the
      late-requester reply is guarded by that flag, so a success that leaves it unset loses every requester that registers afterwards""", "K1", floor=3)
def success_sets_executed(ctx):
    from rules_exit import result_arm_regions
    r = ctx.r
    # executed-setters: helper methods writing `executed` from a non-constant (executed = !to_execute)
    setters = []
    for (wb, bb, st) in r.field_writes("executed"):
        kind, v = r.written_value(wb, st, "executed")
        isfalse = (kind == "op" and is_const(v, "false")) or (kind == "rv" and v["k"] == "use" and is_const(v["op"], "false"))
        if not isfalse and wb in r.helper_methods() and wb not in setters:
            setters.append(wb)
    ctx.need(setters, "helper method recording `executed`")
    for a in r.actors():
        if not r.actor_kinds(a):
            continue
        lab = r.actor_label(a)
        for (Rerr, Rok, what) in result_arm_regions(ctx, a):
            # sub-arms of the Ok payload (IncrementalRunResult variants); Cancelled is not a success
            subs = {}
            for v in ("Skipped", "Completed"):
                R = variant_region(a, "IncrementalRunResult", v, within=Rok | {min(Rok)} if Rok else None) if what == "build-result" else set()
                if R:
                    subs[v] = R
            if not subs:
                subs = {"Ok": Rok}
            elif Rok:
                for v in ("Skipped", "Completed"):
                    subs.setdefault(v, set())    # an outcome without blocks of its own (or-pattern): judged by the paths of the Ok arm that are open to it
            for v, R in subs.items():
                calls = [c for c in calls_to_role(r, a, setters, R) if (is_awaited(a, c[0]) or ctx.f.coroutine_of(callee_base(c[1])) is None) and _must_pass(a, R, c[0])]
                if not calls and Rok and R < Rok and v != "Ok":
                    # the outcome's own blocks only log (`Ok(result @ (Skipped | Completed)) => { if matches!(result, Skipped) { log } notify }`): what matters is
                    # that every way through the Ok arm that this outcome can take (edges of the other outcomes left out) goes through the notifier
                    allc = [c for c in calls_to_role(r, a, setters, Rok) if is_awaited(a, c[0]) or ctx.f.coroutine_of(callee_base(c[1])) is None]
                    tg = {c[0] for c in allc}
                    def open_to(e):
                        l = e.label
                        return not (l is not None and l[0] == "variant" and l[1] and path_ends(l[1], "IncrementalRunResult") and v not in l[2])
                    start = min(Rok)
                    seen, st, leak = {start}, [start], False
                    while st and not leak:
                        x = st.pop()
                        if x in tg:
                            continue
                        for e in a.succ.get(x, ()):
                            if not open_to(e):
                                continue
                            if e.dst not in Rok:
                                leak = True
                                break
                            if e.dst not in seen:
                                seen.add(e.dst)
                                st.append(e.dst)
                    if tg and not leak:
                        calls = allc
                ctx.check(bool(calls), f"{lab}/{what}.{v}", [site(a, c[0]) for c in calls] or [a.loc(min(R)) if R else a.loc()],
                          f"the `{v}` outcome does not go through the notifier that records the target as executed: a requester registering afterwards is never acknowledged")


@rule("C04.PIPES-DRAINED", ["C04"], """a child process whose output is a pipe is never waited for before the pipe was read to its end (`Command::output` reads while it waits): a
      command that prints more than the pipe buffer would block for ever, and zinoma with it""", "K4", floor=1)
def pipes_drained(ctx):
    f = ctx.f
    n = 0
    for (b, bb, t) in ctx.r.spawn_raw():
        if t["callee"]["base"].endswith("Command::output"):
            n += 1
            ctx.ok(f"{short(b.name)}/output", [site(b, bb)], "`output()` drains the pipes while waiting")
    for b in f.user_bodies():
        piped = [bb for bb, t in b.calls() if t["callee"]["base"].endswith("Stdio::piped")]
        if not piped:
            continue
        n += 1
        reads = [bb for bb, t in b.calls() if re.search(r"::(read_to_end|read_to_string|read_line|lines|bytes|copy)$", t["callee"]["base"])]
        waits = [bb for bb, t in b.calls() if re.search(r"Child::(status|wait)$", t["callee"]["base"])]
        bad = [w for w in waits if not any(b.dominates(rd, w) for rd in reads)]
        ctx.check(not bad, f"{short(b.name)}/wait-after-read", [site(b, w) for w in bad] or [site(b, piped[0])],
                  "the child's exit is awaited before its output pipe was read: a command printing more than the pipe buffer never exits, and the run never terminates")
    ctx.need(n >= 1, "process whose output is captured")
