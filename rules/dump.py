"""Debug helper: print bodies of a fact file in a compact MIR-like form.
usage: python3 rules/dump.py <facts.json> <name-substring> [--calls]"""
import sys
from facts import Facts, callee_base


def pplace(p):
    s = f"_{p['local']}"
    for pr in p["proj"]:
        k = pr["k"]
        if k == "deref":
            s = f"(*{s})"
        elif k == "field":
            s = f"{s}.{pr['name']}"
        elif k == "downcast":
            s = f"({s} as {pr['variant']})"
        elif k == "index":
            s = f"{s}[_{pr['local']}]"
        else:
            s = f"{s}.?"
    return s


def pop(o):
    if o["k"] in ("copy", "move"):
        return ("move " if o["k"] == "move" else "") + pplace(o["place"])
    if o["k"] == "const":
        return o.get("def") or o.get("static") or o["val"][:60]
    return "?"


def prv(rv):
    k = rv["k"]
    if k == "use":
        return pop(rv["op"])
    if k == "ref":
        return ("&mut " if rv["mut"] else "&") + pplace(rv["place"])
    if k == "discr":
        return f"discr({pplace(rv['place'])})"
    if k == "binop":
        return f"{rv['op']}({pop(rv['a'])}, {pop(rv['b'])})"
    if k == "unop":
        return f"{rv['op']}({pop(rv['a'])})"
    if k == "cast":
        return f"{pop(rv['op'])} as {rv['to'][:40]}"
    if k == "agg":
        what = rv.get("adt") and (rv["adt"].split("::")[-1] + "::" + rv["variant"]) or rv.get("closure") or rv.get("coroutine") or ("tuple" if rv.get("tuple") else "array")
        fs = rv.get("fields") or []
        ops = [pop(o) for o in rv["ops"]]
        return f"{what}{{{', '.join((fs[i] + ': ' if i < len(fs) else '') + ops[i] for i in range(len(ops)))}}}"
    if k == "rawptr":
        return "&raw " + pplace(rv["place"])
    return "other:" + rv.get("dbg", "")[:60]


def dump(b, calls_only=False):
    print(f"== {b.name}  [{b.kind}{' ' + b.coroutine if b.coroutine else ''}] {b.file}:{b.lo}-{b.hi} argc={b.argc} ret={b.ret}")
    for i, l in enumerate(b.locals):
        if l.get("name") or i <= b.argc:
            print(f"   _{i}: {l['ty'][:100]}  {l.get('name') or ''}")
    for blk in b.j["blocks"]:
        if blk["cleanup"]:
            continue
        t = blk["term"]
        if calls_only and t["k"] != "call":
            continue
        print(f"  bb{blk['id']}:")
        if not calls_only:
            for st in blk["stmts"]:
                print(f"     {pplace(st['lhs'])} = {prv(st['rv'])}   // L{st['line']}")
        k = t["k"]
        if k == "call":
            c = t["callee"]
            nm = (c["resolved"] or c["declared"]) if c else pop(t["func"])
            print(f"     {pplace(t['dest'])} = CALL {nm[:150]}({', '.join(pop(a) for a in t['args'])}) -> bb{t['target']}   // L{t['line']}{' exp' if t.get('exp') else ''}")
        elif k == "switch":
            es = ", ".join(f"{e.label[:3] if e.label else ''}->bb{e.dst}" for e in b.succ[blk["id"]])
            print(f"     SWITCH {pop(t['discr'])} on={pplace(t['on']) if 'on' in t else ''} [{es}]  // L{t['line']}")
        elif k == "goto":
            print(f"     goto bb{t['target']}")
        elif k == "drop":
            print(f"     drop {pplace(t['place'])} -> bb{t['target']}")
        elif k == "yield":
            print(f"     YIELD -> bb{t['resume']}")
        elif k == "assert":
            print(f"     ASSERT {pop(t['cond'])} {t['msg'][:50]} -> bb{t['target']}")
        else:
            print(f"     {k}")


if __name__ == "__main__":
    f = Facts(sys.argv[1])
    pat = sys.argv[2]
    for n, b in f.bodies.items():
        if pat in n:
            dump(b, "--calls" in sys.argv)
