"""C07 (failures), C10 (exit paths), C11 (services), C17 (concurrency), C20 (aggregates) rules."""
from common import *
from engine import rule, AnchorLost
from rules_c01 import _must_pass, readiness_guard, start_sites
from rules_c04 import _is_watch_relay, forward_fns
from rules_watch import inflight_markers, build_result_arms


def returns_err_via_try(body, value_local_pred):
    """[(branch bb, break edge)] of `?` applications whose operand satisfies value_local_pred(origins)"""
    out = []
    for (tb, sb, ce, be) in try_edges(body):
        t = body.term(tb)
        l = operand_local(t["args"][0]) if t["args"] else None
        if l is not None and value_local_pred(origins(body, l)) and be is not None:
            out.append((tb, ce, be))
    return out


# ------------------------------------------------------------------ C07
@rule("C07.SPAWN-ERR", ["C07"], """a script or service that cannot be launched is an error of the enclosing function: the Err of every Command::spawn is propagated with `?`""", "K1", floor=2)
def spawn_err(ctx):
    r = ctx.r
    n = 0
    for (b, bb, t) in r.spawn_sites():
        if not t["callee"]["base"].endswith("Command::spawn"):
            continue
        n += 1
        d = t["dest"]["local"]
        fl = b.prov.flows_forward(d)
        ok = False
        for (tb, sb, ce, be) in try_edges(b):
            l = operand_local(b.term(tb)["args"][0])
            if l in fl and be is not None:
                reach = b.reach_from(be.dst) | {be.dst}
                if any("from_residual" in callee_base(tt) for x, tt in b.calls() if x in reach):
                    ok = True
        ctx.check(ok, f"{short(b.name)}", [site(b, bb)], "a failure to launch the process is not propagated as an error (unwrapped or ignored)")
    ctx.need(n >= 2, "Command::spawn sites")


def result_arm_regions(ctx, a):
    """(Err region, Ok region, label) of the result the actor reacts to: the build-result select arm (build actor) or the match on the awaited
    restart call (service actor)"""
    out = []
    for arm in build_result_arms(a):
        # the match on the arm's own payload: the outermost test of a Result in the arm (code spliced into the arm - `if let Err(e) = sender.send(..).await` in a
        # notifier - tests other Results further down)
        W = arm.region | {arm.edge.dst}
        E = [e for e in a.edges if e.src in W and e.label and e.label[0] == "variant" and path_ends(e.label[1] or "", "Result")]
        outer = [e for e in E if not any(e.src in a.dominated_by_edge(e2) for e2 in E if e2.src != e.src)]
        Rerr, Rok = set(), set()
        for e in outer:
            if e.label[2] == ("Err",):
                Rerr |= a.dominated_by_edge(e) & W
            elif e.label[2] == ("Ok",):
                Rok |= a.dominated_by_edge(e) & W
        # Ok(variant) patterns switch on the payload too
        out.append((Rerr, Rok or (arm.region - Rerr), "build-result"))
    if not out:
        ss = start_sites(ctx.r, a)
        for (bb, t, what) in ss:
            aw = await_of_call(a, bb)
            if aw is None:
                continue
            def on_await(on):
                return True
            Rerr = set()
            Rok = set()
            for e in a.edges:
                if e.label and e.label[0] == "variant" and path_ends(e.label[1] or "", "Result"):
                    o = edge_origin(a, e)
                    if origin_matches(o, lambda x: x[0] == "await" and x[3] is aw):
                        if e.label[2] == ("Err",):
                            Rerr |= a.dominated_by_edge(e)
                        elif e.label[2] == ("Ok",):
                            Rok |= a.dominated_by_edge(e)
            out.append((Rerr, Rok, "restart-result"))
    return out


@rule("C07.FAIL-NOT-ACK", ["C07"], """a failed execution is reported through the failure notifier and never acknowledged: the Err branch calls the failure notifier and no
      success notifier; the success notifier is called only in Ok branches; the failure notifier constructs no Ok and clears `executed`""", "K4", floor=5)
def fail_not_ack(ctx):
    r = ctx.r
    fails, succs = r.failure_notifiers(), r.success_notifiers()
    ctx.need(fails and succs, "failure and success notifiers")
    for fb in fails:
        oks = list(fb.aggregates("ActorInputMessage", "Ok"))
        clears = [bb for (wb, bb, st) in r.field_writes("executed") if wb is fb and st["rv"]["k"] == "use" and is_const(st["rv"]["op"], "false")]
        sends = [s for s in send_calls(fb) if tyname(s[2]) == "TargetActorOutputMessage" and s[3] == "send" and is_awaited(fb, s[0])]
        ctx.check(not oks and bool(clears) and bool(sends), f"{short(fb.name)}/shape", [fb.loc()],
                  "the failure notifier acknowledges (constructs Ok), does not clear `executed`, or does not send the error to the engine")
    for a in r.actors():
        if not r.actor_kinds(a):
            continue
        lab = r.actor_label(a)
        regs = result_arm_regions(ctx, a)
        ctx.need(regs, f"result handling in {lab}")
        for (Rerr, Rok, what) in regs:
            ctx.need(Rerr, f"Err branch of the {what} in {lab}")
            fcalls = [c for c in calls_to_role(r, a, fails, Rerr) if is_awaited(a, c[0]) and _must_pass(a, Rerr, c[0])]
            scalls_in_err = calls_to_role(r, a, succs, Rerr)
            ctx.check(bool(fcalls) and not scalls_in_err, f"{lab}/{what}.Err", [site(a, c[0]) for c in fcalls] or [a.loc(min(Rerr))],
                      "the Err branch does not report the failure on every path, or acknowledges success")
        for bb, t in calls_to_role(r, a, succs):
            ok = any(bb in Rok for (Rerr, Rok, what) in regs)
            ctx.check(ok, f"{lab}/success@{sorted(x[0] for x in calls_to_role(r, a, succs)).index(bb)}", [site(a, bb)], "the success notifier is called outside an Ok branch of the execution result")


@rule("C07.ONESHOT-RETURNS-ERR", ["C07"], """in the one-shot relay a TargetExecutionError makes the relay return Err carrying that error on every path""", "K1", floor=1)
def oneshot_returns_err(ctx):
    r = ctx.r
    rels = [x for x in r.relays() if not _is_watch_relay(r, x)]
    ctx.need(rels, "one-shot relay")
    for rel in rels:
        Re = variant_region(rel, "TargetActorOutputMessage", "TargetExecutionError")
        ctx.need(Re, "TargetExecutionError handler in the one-shot relay")
        errs = [(bb, st) for (bb, st) in rel.aggregates("Result", "Err") if bb in Re and st["lhs"]["local"] == 0]
        good = []
        for (bb, st) in errs:
            at = rel.prov.operand_atoms(st["rv"]["ops"][0])
            if ("variant", "TargetExecutionError") in at and _must_pass(rel, Re, bb):
                good.append(bb)
        # no path of the region goes back to the loop
        loops = rel.natural_loops()
        back = any(e for e in rel.edges if e.src in Re and e.dst not in Re and any(e.dst in blks for (h, blks, ex) in loops) and not good)
        ctx.check(bool(good), f"{short(rel.name)}/TargetExecutionError", [site(rel, b) for b in good] or [rel.loc(min(Re))],
                  "a failed target does not make the one-shot run return the target's error on every path (the run would exit 0 or hang)")


@rule("C07.WATCH-CONTINUES", ["C07", "C06"], """in the watch relay a TargetExecutionError is reported and the relay keeps running (no return, no loop exit)""", "K1", floor=1)
def watch_continues(ctx):
    r = ctx.r
    rels = [x for x in r.relays() if _is_watch_relay(r, x)]
    ctx.need(rels, "watch relay")
    for rel in rels:
        Re = variant_region(rel, "TargetActorOutputMessage", "TargetExecutionError")
        ctx.need(Re, "TargetExecutionError handler in the watch relay")
        loops = rel.natural_loops()
        ctx.need(loops, "relay loop")
        h, blks, exits = max(loops, key=lambda l: len(l[1]))
        leaves = [e for e in exits if e.src in Re]
        rets = [bb for bb in Re if rel.term(bb)["k"] == "return"]
        errs = [bb for (bb, st) in rel.aggregates("Result", "Err") if bb in Re and st["lhs"]["local"] == 0]
        ctx.check(not leaves and not rets and not errs and Re <= blks, f"{short(rel.name)}/TargetExecutionError", [rel.loc(min(Re))],
                  "a failed target makes watch mode stop")


@rule("C07.ERR-REACHES-EXIT", ["C07", "C10", "C11"], """in main the awaited shutdown of all actors follows the await of the engine on every path and precedes the `?` on the engine's result;
      main returns the block's result""", "K1", floor=2)
def err_reaches_exit(ctx):
    r = ctx.r
    f = ctx.f
    ma = r.main_async()
    m = r.main_body()
    relays = {r.fn_of(x).name for x in r.relays()}
    # the engine entry: local async fn awaited in main's block that reaches a relay
    def is_shutdown(n):
        return any(any(tyname(s[2]) == "TerminationMessage" for s in send_calls(f.bodies[x])) for x in f.cg.reach([n], cross_spawn=False) if x in f.bodies)

    def outermost_awaits(cands):
        # with helpers spliced in, nested awaits (run -> execute_once) are visible too: keep those not nested inside another candidate's await
        return [a for a in cands if not any(b is not a and ma.dominates(b.into_bb, a.into_bb) and
                                            a.into_bb in (ma.reach_from(b.into_bb) - (ma.reach_from(b.ready_bb) if b.ready_bb is not None else set())) for b in cands)]
    # the engine entry runs the relays but does not itself shut the actors down; the shutdown tells the actors to terminate but runs no relay
    eng = outermost_awaits([a for a in awaits(ma) if a.callee in f.bodies and relays & f.cg.reach([a.callee], cross_spawn=False) and not is_shutdown(a.callee)])
    ctx.need(len(eng) == 1, f"await of the engine entry point in main (found {len(eng)})")
    eng = eng[0]
    shut = outermost_awaits([a for a in awaits(ma) if a.callee in f.bodies and a is not eng and is_shutdown(a.callee) and not (relays & f.cg.reach([a.callee], cross_spawn=False))])
    if not shut:
        ctx.bad("main/shutdown", [site(ma, eng.into_bb)], "main never awaits the shutdown of the actors", props=["C07", "C10", "C11"])
        return
    sh = shut[0]
    after_eng = ma.reach_from(eng.ready_bb) | {eng.ready_bb}
    # every path from the engine's completion to a return passes the shutdown await
    rets = ma.return_blocks()
    avoid_reach = ma.reach_from(eng.ready_bb, avoid=(sh.into_bb,))
    skipped = [x for x in rets if x in avoid_reach]
    ctx.check(not skipped, "main/shutdown-always", [site(ma, sh.into_bb)], "some path from the end of the engine run to the end of main skips the shutdown of the actors (e.g. the error path): spawned processes are left behind", props=["C07", "C10", "C11"])
    # the `?` on the engine result comes after the shutdown
    tries = returns_err_via_try(ma, lambda o: origin_matches(o, lambda x: x[0] == "await" and x[3] is eng))
    if not tries:
        # ... or handed back as it is: the engine's result is the value of the block (`let result = run(..).await; shutdown().await; result`, possibly inside a
        # helper whose own result the block returns) - the shutdown-always check above already places the return after the shutdown
        returned = False
        if eng.poll_call_bb is not None and ma.term(eng.poll_call_bb).get("dest") is not None:
            returned = 0 in ma.prov.flows_forward(ma.term(eng.poll_call_bb)["dest"]["local"])
        ctx.check(returned, "main/result-propagated", [site(ma, eng.into_bb)], "the result of the engine run is neither propagated with `?` nor returned: a failed target would exit 0", props=["C07", "C10"])
    for (tb, ce, be) in tries:
        before = tb in (ma.reach_from(eng.ready_bb, avoid=(sh.into_bb,)) | {eng.ready_bb})
        ctx.check(tb in (ma.reach_from(sh.ready_bb) | {sh.ready_bb}) and not before, "main/result-after-shutdown", [site(ma, tb)],
                  "the engine's error is returned before the actors are shut down", props=["C07", "C10", "C11"])
    # main returns block_on's value
    ok = False
    mraw = f.bodies[m.name]   # main's own code: what is spliced into its view plays no part in what main returns
    for p in enumerate_paths(mraw)[:2000]:
        ro = ret_origins(mraw, p)
        if any(o[0] == "call" and o[1] in ("async_std::task::block_on",) for o in ro):
            ok = True
            break
    ctx.check(ok, "main/returns-block-result", [m.loc()], "main does not return the result of the async block", props=["C07", "C10"])


# ------------------------------------------------------------------ C10
def _joined_termination_sends(f, b):
    """awaits of `join_all(<iterator>.map(|h| h.termination_sender.send(TerminationMessage)))`: [(await, atoms of the joined iterator)]"""
    out = []
    for a in awaits(b):
        if not (a.callee and re.search(r"future::(join_all|try_join_all)$", a.callee)):
            continue
        at = set()
        for x in a.producer[1]["args"]:
            at |= b.prov.operand_atoms(x)
        for a_ in at:
            cb = f.bodies.get(a_[1]) if a_[0] == "closure" else None
            if cb is not None and any(tyname(s[2]) == "TerminationMessage" for s in send_calls(cb)):
                out.append((a, at))
                break
    return out


def shutdown_fns(ctx):
    f = ctx.f
    out = []
    for b in f.user_bodies():
        if b.coroutine and (any(tyname(s[2]) == "TerminationMessage" for s in send_calls(b)) or _joined_termination_sends(f, b)) and "TargetActors" in (ctx.r.fn_of(b).locals[1]["ty"] if ctx.r.fn_of(b).argc else "") + ctx.r.fn_of(b).name:
            out.append(b)
    return out


@rule("C10.TERMINATE-ALL", ["C10"], """shutdown sends the termination message to every stored actor handle and awaits all join handles; every launched actor's join handle is stored""", "K10", floor=3)
def terminate_all(ctx):
    r = ctx.r
    f = ctx.f
    senders = shutdown_fns(ctx)
    ctx.need(senders, "function sending TerminationMessage to the actor handles")
    for b in senders:
        ok = False
        for (nbb, sbb, ne, se, blks, it_atoms) in for_loops(b):
            if not any(tyname(s[2]) == "TerminationMessage" and s[0] in blks and is_awaited(b, s[0]) for s in send_calls(b)):
                continue
            exits = [e for bl in blks for e in b.succ.get(bl, ()) if e.dst not in blks and b.term(e.dst)["k"] != "unreachable"]
            other = [e for e in exits if not (ne is not None and e.src == ne.src and e.dst == ne.dst)]
            whole = any(c.endswith("HashMap::<K, V, S>::values") or c.endswith("::values") or c.endswith("::iter") for c in atom_callres(it_atoms)) and not any(re.search(r"::(take|skip|filter|step_by)$", c) for c in atom_callres(it_atoms))
            if not other and whole:
                ok = True
        # ... or all at once: `join_all(handles.values().map(|h| h.termination_sender.send(TerminationMessage))).await`
        for (a, at) in _joined_termination_sends(f, b):
            if any(c.endswith("::values") or c.endswith("::iter") or c.endswith("::values_mut") for c in atom_callres(at)) and not [c for c in atom_callres(at) if re.search(RESTRICTING, c)]:
                ok = True
        ctx.check(ok, f"{short(b.name)}/all-handles", [b.loc()], "the termination message is not sent to every stored actor handle (partial loop or early exit)")
    # join_all awaited over the join-handle vector, after the termination messages
    joined = False
    for b in f.user_bodies():
        if not b.coroutine:
            continue
        for a in awaits(b):
            if a.callee and a.callee.endswith("future::join_all"):
                at = set()
                for x in a.producer[1]["args"]:
                    at |= b.prov.operand_atoms(x)
                sends_first = any(aw.callee in {r.fn_of(s).name for s in senders} and a.into_bb in b.reach_from(aw.into_bb) for aw in awaits(b)) or \
                    any(tyname(sc[2]) == "TerminationMessage" and is_awaited(b, sc[0]) and a.into_bb in b.reach_from(sc[0]) for sc in send_calls(b))
                argl = operand_local(a.producer[1]["args"][0]) if a.producer[1]["args"] else None
                # the join handles: a vector of them, or the `join_handle` of every stored handle set (`handles.values_mut().map(|h| &mut h.join_handle)`)
                def is_join_field(a_):
                    if a_[0] != "field" or a_[1] not in f.adts:
                        return False
                    return any(fd["name"] == a_[2] and "JoinHandle<" in fd["ty"] for v_ in f.adts[a_[1]]["variants"] for fd in v_["fields"])
                over_handles = argl is not None and any(is_join_field(a_) for a_ in at) and \
                    any(c.endswith("::values_mut") or c.endswith("::values") or c.endswith("::into_values") or c.endswith("::drain") for c in atom_callres(at)) and \
                    not [c for c in atom_callres(at) if re.search(RESTRICTING, c)]
                if argl is not None and (re.search(r"Vec<async_std::task::JoinHandle<\(\)>>", b.locals[argl]["ty"]) or over_handles):
                    joined = True
                    ctx.check(sends_first, f"{short(b.name)}/join-after-terminate", [site(b, a.into_bb)], "the actors are joined before (or without) being told to terminate: shutdown hangs")
    ctx.check(joined, "join-all", [], "shutdown does not await the actors' join handles: zinoma can exit while processes are still being killed")
    # every launch stores the join handle: the result of task::spawn(actor run) flows into a push on the join-handle vector
    for (L, bb, t) in r.launch_sites():
        fl = L.prov.flows_forward(t["dest"]["local"])
        pushed = [x for x, tt in L.calls() if re.search(r"Vec::<.*JoinHandle<\(\)>.*>::push$", callee_decl(tt)) and len(tt["args"]) > 1 and operand_local(tt["args"][1]) in fl]
        # ... or into the handle set that the registry keeps (insert / entry API on the map of handle sets)
        hs_has_join = any("JoinHandle<" in fd["ty"] for ap_, ad_ in f.adts.items() if path_ends(ap_, "TargetActorHandleSet") for v_ in ad_["variants"] for fd in v_["fields"])
        if hs_has_join:
            pushed += [x for x, tt in L.calls() if re.search(r"(HashMap::<.*TargetActorHandleSet.*>::insert|VacantEntry::<.*TargetActorHandleSet.*>::insert|Entry::<.*TargetActorHandleSet.*>::or_insert\w*)$", callee_decl(tt))
                       and any(operand_local(a_) in fl for a_ in tt["args"][1:])]
        ctx.check(bool(pushed), f"{short(L.name)}/join-handle-stored@{short(callee_base(t))}", [site(L, x) for x in pushed] or [site(L, bb)], "the join handle of a launched actor is not stored: shutdown would not wait for it")


def _reaches_all_returns_through(body, start, through, ok_only=False):
    yield True


def termination_flags(a, arm, blks):
    """bool locals that record `termination received`: every definition is `false` before the loop or `true` inside the termination arm"""
    out = []
    for l, loc in enumerate(a.locals):
        if loc["ty"] != "bool" or not loc.get("name"):
            continue
        defs = a.prov.defs.get(l, ())
        if not defs:
            continue
        good, set_in_arm = True, False
        for kind, x, bb in defs:
            v = const_val(x["rv"]["op"]) if kind == "assign" and x["rv"]["k"] == "use" else None
            if v == "false" and bb not in blks:
                continue
            if v == "true" and (bb in arm.region or bb == arm.edge.dst):
                set_in_arm = True
                continue
            good = False
        if good and set_in_arm:
            out.append(l)
    return out


def flag_true_edges(a, flags, blks):
    """edges of the loop taken when a termination flag is true"""
    return [e for e in a.edges if e.src in blks and e.label and e.label[0] == "bool" and e.label[1] is True and e.label[2] is not None and set(flags) & set(_locals_read(a, e.label[2]))]


@rule("C10.ACTOR-EXITS", ["C10"], """every actor leaves its loop when told to terminate: directly, or (build in flight) by cancelling the build and leaving when its result arrives""", "K1", floor=3)
def actor_exits(ctx):
    r = ctx.r
    for a in r.actors():
        lab = r.actor_label(a)
        arms = arm_by_payload(a, lambda p: "TerminationMessage" in p)
        ctx.need(len(arms) == 1, f"termination arm in {lab}")
        arm = arms[0]
        loops = a.natural_loops()
        ctx.need(loops, f"actor loop in {lab}")
        h, blks, exits = max(loops, key=lambda l: len(l[1]))
        leave = [e for e in exits if e.src in arm.region or e.src == arm.edge.dst or e.dst in arm.region and e.dst not in blks]
        leaves_directly_always = not any(e for e in a.edges if e.src in arm.region and e.dst in blks and e.dst not in arm.region)
        # does every path through the arm leave the loop?
        stay = [e for e in a.edges if e.src in (arm.region | {arm.edge.dst}) and e.dst in blks and e.dst not in arm.region and e.dst != arm.edge.dst]
        arm_out_of_loop = not (arm.region & blks) or not stay
        # an actor that owns a running build may not leave right after telling it to stop: the build future (which kills and reaps the shell when it sees the
        # cancellation) must be driven to its end first - through the select on a later turn of the loop, or by awaiting it in the arm. Dropping it leaves the shell
        # running with nobody to kill it.
        cancels0 = [s for s in send_calls(a) if tyname(s[2]) == "BuildCancellationMessage" and s[0] in arm.region]
        if cancels0:
            polls0 = {x.into_bb for x in awaits(a) if x.callee and x.callee.endswith("poll_fn") and x.into_bb in blks}
            build_waits = {x.ready_bb for x in awaits(a) if x.ready_bb is not None and x.fut_local is not None and x.into_bb in arm.region and
                           re.search(r"Fuse<|IncrementalRunResult", a.locals[x.fut_local]["ty"])}
            # (a way out that is taken only when *no* build is in flight - `if terminating && !build_ongoing { break }` at the top of the loop - is not
            # a way out for the build that was just told to stop)
            def marker_call(d, which):
                return d[0] == "call" and d[1].endswith("::" + which) and "BuildCancellationMessage" in callee_decl(a.term(d[3]))
            no_build = guard_region(a, lambda d: marker_call(d, "is_some"), False) | guard_region(a, lambda d: marker_call(d, "is_none"), True)
            for e in a.edges:
                if e.label and e.label[0] == "variant" and e.label[2] == ("None",) and e.label[3] and "BuildCancellationMessage" in str(e.label[3].get("ty")):
                    no_build |= a.dominated_by_edge(e)
            # ... also when that fact is handed over as a variant of a local enum built only there (`None => LoopControl::Break`)
            for (abb, ast) in list(a.aggregates()):
                rv = ast["rv"]
                if abb not in no_build or rv.get("adt") not in ctx.f.adts or not ctx.f.adts[rv["adt"]]["enum"] or rv["adt"].startswith("std::"):
                    continue
                nm_, var_ = rv["adt"].split("::")[-1], rv["variant"]
                if all(bb2 in no_build for (bb2, _) in a.aggregates(nm_, var_)):
                    no_build |= variant_region(a, nm_, var_)
            no_build -= {c0[0] for c0 in cancels0}
            leaks = []
            for c0 in cancels0:
                reach0 = (a.reach_from(c0[0], avoid=tuple(build_waits | polls0 | no_build)) | {c0[0]}) - build_waits - polls0 - no_build
                # (leaving = reaching the end of the actor without blocking in the select again and without having awaited the build)
                leaks += [x for x in reach0 if a.term(x)["k"] == "return"]
            ctx.check(not leaks, f"{lab}/build-driven-to-its-end", [site(a, c0[0]) for c0 in cancels0],
                      "on termination the actor tells the running build to stop and leaves at once: the build future is dropped before it killed and reaped the shell, which outlives zinoma")
        if arm_out_of_loop:
            ctx.ok(f"{lab}/terminates", [a.loc(arm.edge.dst)], "termination arm leaves the loop on every path")
            continue
        # build actor idiom: on the staying paths the cancellation is sent and a flag is set; the build-result arm leaves under the flag
        cancels = [s for s in send_calls(a) if tyname(s[2]) == "BuildCancellationMessage" and s[0] in arm.region]
        flag_locals = [st["lhs"]["local"] for bb in arm.region for st in a.stmts(bb) if a.locals[st["lhs"]["local"]]["ty"] == "bool" and a.locals[st["lhs"]["local"]].get("name") and st["rv"]["k"] == "use" and is_const(st["rv"]["op"], "true") and _must_pass(a, arm.region, bb)]
        ok = False
        for ba in build_result_arms(a):
            for e in exits:
                if e.src in ba.region and e.label and e.label[0] == "bool" and e.label[1] is True and e.label[2] is not None:
                    tested = {st2 for st2 in _locals_read(a, e.label[2])}
                    if set(flag_locals) & tested:
                        ok = True
        # ... and on *every* outcome of the build: the arm may go round the loop again only past the false edge of that flag test (a build that completes,
        # is skipped or fails after the termination was received must leave too, not only a cancelled one)
        for ba in build_result_arms(a):
            back = [e for e in a.edges if e.src in ba.region and e.dst in blks and e.dst not in ba.region]
            Gfalse = set()
            for e in a.edges:
                if e.src in ba.region and e.label and e.label[0] == "bool" and e.label[1] is False and e.label[2] is not None and set(flag_locals) & set(_locals_read(a, e.label[2])):
                    Gfalse |= a.dominated_by_edge(e) | {e.dst}
            stays = [e for e in back if e.src not in Gfalse and e.dst not in Gfalse]
            if stays:
                ok = False
        # the same, stated on the loop as a whole (the flag may be tested anywhere - e.g. once, at the top of the loop): between recording the termination
        # (unless a build is in flight and was just told to stop) or learning the outcome of a build, and blocking in the select again, the actor passes a
        # test of the flag whose true side leads out of the loop
        polls = {x.into_bb for x in awaits(a) if x.callee and x.callee.endswith("poll_fn") and x.into_bb in blks}
        flags = set(flag_locals) & set(termination_flags(a, arm, blks))
        if not ok and polls and flags:
            outside = {e.dst for e in exits}
            tests = {e.src for e in flag_true_edges(a, flags, blks) if (a.reach_from(e.dst, avoid=tuple(polls)) | {e.dst}) & outside}
            cancel_bbs = {c[0] for c in cancels}
            def blocks_again(start, exempt):
                avoid = tuple(tests | exempt)
                return start not in avoid and bool(((a.reach_from(start, avoid=avoid) | {start}) - set(avoid)) & polls)
            starts_arm = [bb for bb in arm.region for st in a.stmts(bb) if st["lhs"]["local"] in flags and not st["lhs"]["proj"]]
            ok = bool(tests) and bool(starts_arm) and not any(blocks_again(sb, cancel_bbs) for sb in starts_arm) and \
                not any(blocks_again(ba.edge.dst, set()) for ba in build_result_arms(a)) and bool(build_result_arms(a))
        # staying paths must be exactly those that have a build in flight (and cancelled it)
        ctx.check(bool(cancels) and bool(flag_locals) and ok, f"{lab}/terminates", [site(a, c[0]) for c in cancels] or [a.loc(arm.edge.dst)],
                  "on termination the actor neither leaves its loop nor (cancels the running build, records the termination and leaves when the build result arrives)")


@rule("C04.LOOP-ONLY-LEFT-ON-TERMINATION", ["C04", "C06"], """an actor leaves its message loop only because it was told to terminate (directly in the termination arm, or under a flag that starts false and is
      set only in that arm) or because its inbox closed: an actor that stops listening for any other reason never answers a later requester, and never rebuilds""", "K1", floor=3)
def loop_only_left_on_termination(ctx):
    r = ctx.r
    for a in r.actors():
        lab = r.actor_label(a)
        arms = arm_by_payload(a, lambda p: "TerminationMessage" in p)
        ctx.need(len(arms) == 1, f"termination arm in {lab}")
        arm = arms[0]
        loops = a.natural_loops()
        ctx.need(loops, f"actor loop in {lab}")
        h, blks, exits = max(loops, key=lambda l: len(l[1]))
        bad = []
        n = 0
        for e in exits:
            if a.term(e.dst)["k"] in ("unreachable",) or a.blocks[e.dst].get("cleanup"):
                continue
            if not any(a.term(x)["k"] == "return" for x in a.reach_from(e.dst) | {e.dst}):
                continue   # into a panic (a failed `debug_assert!`): the actor does not go on to finish
            n += 1
            if e.src in arm.region or e.src == arm.edge.dst or e.dst in arm.region:
                continue
            l = e.label
            if l and l[0] == "variant" and set(l[2]) <= {"None", "Err", "Break"}:
                continue   # the inbox (or the select) is exhausted / closed
            ok = False
            if l and l[0] == "bool" and l[2] is not None:
                flags = [x for x in _locals_read(a, l[2]) if a.locals[x].get("name") and a.locals[x]["ty"] == "bool"]
                for fl in flags:
                    defs = a.prov.defs.get(fl, ())
                    good = bool(defs)
                    for kind, x, bb in defs:
                        v = const_val(x["rv"]["op"]) if kind == "assign" and x["rv"]["k"] == "use" else None
                        if v == "false" and bb not in blks:
                            continue
                        if v == "true" and (bb in arm.region or bb == arm.edge.dst):
                            continue
                        good = False
                    if good and l[1] is True:
                        ok = True
            if not ok:
                # ... or further down a conjunction that starts with the flag (`if terminating && !build_ongoing { break }`)
                tf = termination_flags(a, arm, blks)
                ok = any(e.src in a.dominated_by_edge(fe) or e.src == fe.dst for fe in flag_true_edges(a, tf, blks))
            if not ok:
                bad.append(e)
        ctx.need(n >= 1, f"exit of the actor loop in {lab}")
        ctx.check(not bad, f"{lab}/exits", [site(a, e.src) for e in bad[:4]] or [a.loc(h)],
                  "the actor can leave its message loop without having been told to terminate (an exit that is neither in the termination arm nor under a flag that is false until that arm sets it)")


def _locals_read(body, l, depth=0):
    out = {l}
    if depth > 5:
        return out
    for kind, x, bb in body.prov.defs.get(l, ()):
        if kind == "assign":
            pl, cs = rv_sources(x["rv"])
            for p in pl:
                if not p["proj"]:
                    out |= _locals_read(body, p["local"], depth + 1)
    return out


@rule("C10.WAIT-IS-CANCELLABLE-OR-KILLED", ["C10"], """every wait for a build or service shell is either raced against a cancellation receiver or preceded by a kill of the same child;
      the cancellation arm kills and then reaps""", "K1", floor=3)
def wait_cancellable(ctx):
    r = ctx.r
    f = ctx.f
    n = 0
    scope = list(r.script_runners()) + [r.V(x) for x in _service_bodies(r) if not any(r.contains(y, x) for y in _service_bodies(r))]
    scope = [b for i, b in enumerate(scope) if not any(b.name == c.name for c in scope[:i])]
    for b in scope:
        waits = [(bb, t) for bb, t in b.calls() if is_process_wait(t["callee"]["base"]) and t["callee"]["base"].endswith("Child::status") or t["callee"] and t["callee"]["base"].endswith("Child::wait")]
        for (bb, t) in waits:
            n += 1
            child_at = {x for x in b.prov.operand_atoms(t["args"][0], interproc=False) if x[0] in ("localname",)}
            if future_fate(b, bb) != "awaited" or await_of_call(b, bb) is None:
                # not awaited directly: must be polled by a select that also polls a cancellation/termination receiver
                pcs = select_poll_closures(b)
                d = t["dest"]["local"]
                fl = b.prov.flows_forward(d)
                raced = False
                for (pbb, x, pb) in pcs:
                    caps = {operand_local(o) for o in x["rv"]["ops"]}
                    cap_tys = " ".join(b.locals[c]["ty"] for c in caps if c is not None)
                    if any(_refers(b, c, fl) for c in caps if c is not None) and re.search(r"Receiver<[\w:]*(BuildCancellationMessage|TerminationMessage)>", cap_tys):
                        raced = True
                ctx.check(raced, f"{short(b.name)}/wait@{_wait_ord(b, bb, waits)}", [site(b, bb)], "a process wait is neither awaited after a kill nor raced against a cancellation receiver: termination would wait for the script")
            else:
                kills = [kb for kb, kt in b.calls() if is_process_kill(kt["callee"]["base"]) and b.dominates(kb, bb) and
                         {x for x in b.prov.operand_atoms(kt["args"][0], interproc=False) if x[0] == "localname"} & child_at]
                ctx.check(bool(kills), f"{short(b.name)}/wait@{_wait_ord(b, bb, waits)}", [site(b, bb)], "a process is awaited without having been killed first and without a cancellation race: termination would wait for the script")
    ctx.need(n >= 3, f"process wait sites (found {n})")
    # cancellation arm: kill then awaited status
    for b in r.script_runners():
        arms = arm_by_payload(b, lambda p: "BuildCancellationMessage" in p)
        ctx.need(arms, "cancellation arm")
        for arm in arms:
            kills = [kb for kb, kt in b.calls() if is_process_kill(kt["callee"]["base"]) and kb in arm.region and _must_pass(b, arm.region, kb)]
            reaps = [wb for wb, wt in b.calls() if wt["callee"]["base"].endswith("Child::status") and wb in arm.region and is_awaited(b, wb) and _must_pass(b, arm.region, wb)]
            ctx.check(bool(kills) and bool(reaps) and all(any(b.dominates(k, w) for k in kills) for w in reaps), f"{short(b.name)}/cancel-arm", [site(b, x) for x in kills + reaps] or [b.loc(arm.edge.dst)],
                      "the cancellation arm does not kill and then reap the build shell on every path")


def _wait_ord(b, bb, waits):
    return sorted(x[0] for x in waits).index(bb)


def _refers(b, cap_local, targets):
    """the captured reference local points (through &mut chains) at one of `targets`"""
    from rules_c01 import _refers_to
    return bool(_refers_to(b, cap_local) & set(targets))


def _service_bodies(r):
    """async bodies that belong to an actor owning a process slot (Option<Child> field)"""
    out = []
    for b in r.f.user_bodies():
        if not b.coroutine:
            continue
        fn = r.fn_of(b)
        if fn.argc >= 1 and re.search(r"ServiceTargetActor|Option<async_process::Child>", fn.locals[1]["ty"]):
            out.append(b)
    return out


def stop_fns(ctx):
    """local async fns that take() the process slot, kill and reap"""
    out = []
    for b in ctx.f.user_bodies():
        if b.coroutine and any(is_process_kill(t["callee"]["base"]) for _, t in b.calls()) and any(re.search(r"Option::<async_process::Child>::take$", callee_decl(t)) for _, t in b.calls()):
            out.append(b)
    return out


@rule("C10.SERVICE-STOP-ON-EXIT", ["C10", "C11"], """the service actor stops its process on every path from leaving its loop to returning""", "K1", floor=1)
def service_stop_on_exit(ctx):
    r = ctx.r
    stops = stop_fns(ctx)
    ctx.need(stops, "service stop function (take + kill + status)")
    names = {r.fn_of(s).name for s in stops}
    n = 0
    for a in r.actors():
        if "Service" not in r.actor_kinds(a):
            continue
        n += 1
        loops = a.natural_loops()
        h, blks, exits = max(loops, key=lambda l: len(l[1]))
        aw = [x for x in awaits(a) if x.callee in names and x.into_bb not in blks]
        ok = bool(aw)
        for e in exits:
            # from the exit target, every path to return passes one of the awaits
            avoid = tuple(x.into_bb for x in aw)
            reach = a.reach_from(e.dst, avoid=avoid) | {e.dst}
            if any(a.term(x)["k"] == "return" for x in reach if x not in avoid):
                ok = False
        ctx.check(ok, f"{r.actor_label(a)}/stop-after-loop", [site(a, x.into_bb) for x in aw] or [a.loc()], "the service actor can return without stopping its service process: the shell outlives zinoma")
    ctx.need(n >= 1, "service actor")
    # the stop function itself: kill then awaited status on the taken child
    for s in stops:
        kills = [kb for kb, kt in s.calls() if is_process_kill(kt["callee"]["base"])]
        reaps = [wb for wb, wt in s.calls() if wt["callee"]["base"].endswith("Child::status") and is_awaited(s, wb)]
        ctx.check(bool(kills) and bool(reaps) and all(any(s.dominates(k, w) for k in kills) for w in reaps), f"{short(s.name)}/kill-then-reap", [site(s, x) for x in kills + reaps],
                  "the stop function does not kill and then reap the service process")


def _service_side(r, view):
    """is this spawn site part of a service actor's code (reachable from a service actor through the call graph)?"""
    svc = [a.name for a in r.actors() if "Service" in r.actor_kinds(a)]
    return view.name in r.f.cg.reach(svc) or view.name in svc


@rule("C10.SPAWN-OWNED", ["C10"], """every spawned shell is owned: a build shell is a local covered by the cancellation arm, a service shell is stored in the slot emptied by the stop function""", "K4", floor=2)
def spawn_owned(ctx):
    r = ctx.r
    for (b, bb, t) in r.spawn_sites():
        base = t["callee"]["base"]
        if not base.endswith("Command::spawn"):
            if base.startswith("std::process"):
                ctx.bad(f"{short(b.name)}/std-process", [site(b, bb)], "a blocking std::process call in async code")
            continue  # Command::output of cmd_stdout helpers: out of the property's letter (DESIGN C10 'not decided')
        fl = b.prov.flows_forward(t["dest"]["local"])
        if r.is_role(r.script_runners(), b):
            arms = arm_by_payload(b, lambda p: "BuildCancellationMessage" in p)
            covered = any(is_process_kill(kt["callee"]["base"]) and kb in arm.region and _refers(b, operand_local(kt["args"][0]), fl) for arm in arms for kb, kt in b.calls())
            ctx.check(covered, f"{short(b.name)}/build-shell", [site(b, bb)], "the spawned build shell is not the child killed by the cancellation arm")
            # ... and once the shell exists the runner returns only after it ended: through the arm that observed its exit status, or past an awaited wait
            start = None
            cands = [(tb, ce) for (tb, sb, ce, be) in try_edges(b) if ce is not None and operand_local(b.term(tb)["args"][0]) in fl]
            for (tb, ce) in cands:
                if all(b.dominates(tb, tb2) for (tb2, _) in cands):
                    start = ce.dst
            if start is None:
                start = t["target"]
            safe = {arm.edge.dst for arm in select_arms(b) if "ExitStatus" in (arm.payload or "")}
            safe |= {a.ready_bb for a in awaits(b) if a.callee and a.callee.endswith("Child::status") and a.ready_bb is not None}
            reach = (b.reach_from(start, avoid=tuple(safe)) | {start}) - safe
            leaks = sorted(x for x in reach if b.term(x)["k"] == "return")
            ctx.check(not leaks, f"{short(b.name)}/build-shell-reaped", [site(b, bb)],
                      "after the build shell was spawned the runner can return without having waited for its end (an early `return` between the spawn and the select): the shell outlives the run")
        elif not _service_side(r, b):
            # a shell run by a helper (e.g. to capture a command's output): it is owned when the function that spawned it awaits its end
            waited = any(re.search(r"Child::(status|output)$", wt["callee"]["base"]) and is_awaited(b, wb) and _refers(b, operand_local(wt["args"][0]), fl) for wb, wt in b.calls())
            ctx.check(waited, f"{short(b.name)}/helper-shell", [site(b, bb)], "a helper spawns a shell and does not await its end")
        else:
            slot_writes = [(x["id"], st) for x in b.normal_blocks() for st in x["stmts"] if st["lhs"]["proj"] and st["lhs"]["proj"][-1]["k"] == "field" and st["lhs"]["proj"][-1]["name"] == "service_process"]
            stored = [x for (x, st) in slot_writes if any(operand_local(o) in fl for o in ([st["rv"]["op"]] if st["rv"]["k"] == "use" else st["rv"].get("ops", [])))]
            stored2 = [x for (x, st) in slot_writes if b.dominates(bb, x)]
            ctx.check(bool(stored or stored2) and bool(stop_fns(ctx)), f"{short(b.name)}/service-shell", [site(b, bb)], "the spawned service shell is not stored in the process slot that the stop function empties")


@rule("C10.SINGLE-FLIGHT", ["C10"], """the build actor starts a build only when none is in flight and records the new one; re-arming while a script runs would drop the future
      that owns the child without killing it""", "K1", floor=1)
def single_flight(ctx):
    r = ctx.r
    n = 0
    for a in r.actors():
        if not build_result_arms(a):
            continue
        n += 1
        marks = inflight_markers(a)
        ctx.need(marks, "in-flight marker")
        def none_test(d):
            return d[0] == "call" and d[1].endswith("::is_none") and d[2] and any(x[0] == "localname" and x[1] in {a.locals[m]["name"] for m in marks} for x in d[2][0])
        G = guard_region(a, none_test, True)
        Gs = guard_region(a, lambda d: d[0] == "call" and d[1].endswith("::is_some") and d[2] and any(x[0] == "localname" and x[1] in {a.locals[m]["name"] for m in marks} for x in d[2][0]), False)
        G = G | Gs
        ss = start_sites(r, a)
        for (bb, t, what) in ss:
            ctx.check(bb in G, f"{r.actor_label(a)}/start-only-if-idle@{short(callee_base(t))}", [site(a, bb)], "a build can be started while another one is in flight (no `marker.is_none()` guard)")
        Rg = readiness_guard(r, a) & G
        sets = [bb for bb in Rg for st in a.stmts(bb) if st["lhs"]["local"] in marks and not st["lhs"]["proj"] and assigned_agg_variants(a, st) == {"Some"}]
        ctx.check(bool(sets), f"{r.actor_label(a)}/marks-in-flight", [site(a, x) for x in sets] or [a.loc()], "starting a build does not record it as in flight")
    ctx.need(n >= 1, "build actor")


@rule("C10.PREEMPTIBLE-BUILD", ["C10"], """the future that waits for the build shell is never awaited inline by the actor: it is polled only by a select that also polls the termination receiver""", "K1", floor=1)
def preemptible_build(ctx):
    r = ctx.r
    f = ctx.f
    incr = {r.fn_of(b).name for b in r.incremental_runners()} | {r.fn_of(b).name for b in r.script_runners()}
    n = 0
    for a in r.actors():
        for bb, t in a.calls():
            if callee_base(t) in incr:
                n += 1
                ctx.check(await_of_call(a, bb) is None, f"{r.actor_label(a)}/{short(callee_base(t))}", [site(a, bb)], "the build future is awaited inline: the actor cannot react to termination while the script runs")
        if build_result_arms(a):
            arms_t = arm_by_payload(a, lambda p: "TerminationMessage" in p)
            same = any(x.switch_bb == y.switch_bb for x in build_result_arms(a) for y in arms_t)
            ctx.check(same, f"{r.actor_label(a)}/raced-with-termination", [a.loc()], "the build result is not selected together with the termination receiver")
    ctx.need(n >= 1, "build future creation sites in the build actor")   # (the script future itself may be created lazily, by a factory handed to the runner)


@rule("C10.SIGNAL-WIRED", ["C10"], """a task awaits the termination signal (CtrlC) and then sends the termination message; both relays leave their loop on that message""", "K1", floor=3)
def signal_wired(ctx):
    r = ctx.r
    f = ctx.f
    ok = []
    for root, uses in f.cg.spawn_roots.items():
        b = f.bodies[root]
        if any(how == "spawn" for how, _, _ in uses) and any("CtrlC" in (a.callee or "") or "CtrlC" in b.locals[a.fut_local]["ty"] for a in awaits(b) if a.fut_local is not None):
            sends = [s for s in send_calls(b) if tyname(s[2]) == "TerminationMessage" and is_awaited(b, s[0])]
            ctrl = [a for a in awaits(b) if a.fut_local is not None and "CtrlC" in b.locals[a.fut_local]["ty"]]
            if sends and ctrl and all(s[0] in b.reach_from(ctrl[0].into_bb) for s in sends):
                ok.append((b, sends[0][0]))
    ctx.check(bool(ok), "ctrlc-task", [site(b, x) for b, x in ok], "no spawned task awaits CtrlC and then sends the termination message: signals are not honoured")
    # the handler is installed with termination enabled: CtrlC::new must be reached from main before the engine runs
    for rel in r.relays():
        arms = arm_by_payload(rel, lambda p: "TerminationMessage" in p)
        ctx.need(arms, f"termination arm in {short(rel.name)}")
        loops = rel.natural_loops()
        h, blks, exits = max(loops, key=lambda l: len(l[1]))
        good = False
        for arm in arms:
            # direct break, or sets a flag tested by the loop condition
            if any(e.src in arm.region | {arm.edge.dst} or e.dst == arm.edge.dst for e in exits) or not (arm.region & blks) and arm.edge.dst not in blks:
                good = True
            flags = [st["lhs"]["local"] for bb in arm.region | {arm.edge.dst} for st in rel.stmts(bb) if rel.locals[st["lhs"]["local"]]["ty"] == "bool" and st["rv"]["k"] == "use" and is_const(st["rv"]["op"], "true")]
            for e in exits:
                if e.label and e.label[0] == "bool" and e.label[2] is not None and set(flags) & _locals_read(rel, e.label[2]):
                    good = True
            for e in rel.edges:
                if e.src in blks and e.label and e.label[0] == "bool" and e.label[2] is not None and set(flags) & _locals_read(rel, e.label[2]) and any(x.src == e.src or x.src in rel.reach_from(e.src) for x in exits):
                    good = True
            # ... or turns the message into a value of a local enum (`EngineEvent::TerminationRequested`, built nowhere else) on which the loop is left
            W = arm.region | {arm.edge.dst}
            for (abb, ast) in rel.aggregates():
                rv = ast["rv"]
                if abb not in W or "adt" not in rv or rv["adt"] not in f.adts or not f.adts[rv["adt"]]["enum"] or rv["adt"].startswith("std::"):
                    continue
                nm, var = rv["adt"].split("::")[-1], rv["variant"]
                if any(bb2 not in W for (bb2, _) in rel.aggregates(nm, var)):
                    continue
                Rv = variant_region(rel, nm, var)
                if any(e.src in Rv or (e.label and e.label[0] == "variant" and e.label[2] == (var,) and path_ends(e.label[1] or "", nm)) for e in exits) or \
                        any(rel.term(x)["k"] == "return" for x in Rv):
                    good = True
        ctx.check(good, f"{short(rel.name)}/termination-arm", [rel.loc(arms[0].edge.dst)], "the relay does not leave its loop when the termination message arrives")


SYNC_BLOCKING = re.compile(r"^std::process::(Child::wait|Child::wait_with_output|Command::status|Command::output)$|^std::thread::sleep$|^std::sync::mpsc::Receiver::<.*>::recv$|^std::thread::JoinHandle::<.*>::join$")


def sync_blocking_sites(f):
    """synchronous blocking calls reachable in async bodies outside spawn_blocking closures"""
    blocking_roots = {n for n, uses in f.cg.spawn_roots.items() if all(h == "spawn_blocking" for h, _, _ in uses)}
    out = []
    for b in f.user_bodies():
        # is b part of an async context? (a coroutine or reachable from one without crossing spawn_blocking)
        pass
    async_bodies = [b.name for b in f.user_bodies() if b.coroutine]
    reach = f.cg.reach(async_bodies, cross_spawn=True, stop=blocking_roots)
    for n in sorted(reach):
        b = f.bodies[n]
        if f.is_derived(b):
            continue
        for bb, t in b.calls():
            base = t["callee"]["base"]
            decl = callee_decl(t)
            if SYNC_BLOCKING.match(base) or SYNC_BLOCKING.match(decl) or base in ("async_std::task::block_on", "futures::executor::block_on", "async_std::task::Builder::blocking"):
                out.append((b, bb, base))
    return out


@rule("C10.NO-SYNC-BLOCKING", ["C10", "C17"], """no synchronous blocking call (std::process wait/status/output, thread::sleep, nested block_on, sync channel recv) in async code outside
      spawn_blocking closures""", "K6", floor=0)
def no_sync_blocking(ctx):
    sites = sync_blocking_sites(ctx.f)
    for (b, bb, base) in sites:
        ctx.bad(f"{short(b.name)}/{base.split('::')[-1]}", [site(b, bb)], f"synchronous blocking call `{base}` in async code: it stalls the executor thread (and every target scheduled on it) and cannot be cancelled")
    if not sites:
        n = len([b for b in ctx.f.user_bodies() if b.coroutine])
        ctx.ok("async-code", [f"{n} async bodies examined"], "no synchronous blocking call")


# ------------------------------------------------------------------ C11
def _set_ids(at):
    """identifiers of a collection inside one body: names of the locals and of the fields it is reached through"""
    return {("local", z[1]) for z in at if z[0] == "localname"} | {("field", z[2]) for z in at if z[0] == "field" and z[2] not in ("helper",)}


def _some_dependency_actual(r, vb, aop, cv, ct=None):
    """`actual` (operand aop of body vb) is the non-emptiness of a set that the actor view cv fills only under a true incoming `actual` with the
    sender's id. When vb is a constructor helper called from cv by ct, the helper's parameters are bound to the call's arguments."""
    l = operand_local(aop)
    o = origins(vb, l) if l is not None else []
    is_not_empty = origin_matches(o, lambda x: x[0] == "call" and x[1].endswith("::is_empty"), through_not=True) and any(x[0] == "not" for x in o)
    # `set.iter().any(..)`: existential over the recorded dependencies - the same "some dependency" reading as `!set.is_empty()`
    any_calls = [x for x in o if x[0] == "call" and re.search(r"Iterator>?::any(::<.*>)?$", x[1])]
    if not is_not_empty and not any_calls:
        return False, "is neither the negated emptiness test of a set nor an `any` over it"
    ids = set()
    tests = [y for x in o if x[0] == "not" for y in x[1] if y[0] == "call"] + any_calls
    for y in tests:
        if True:
            if True:
                if True:
                    for a in y[3]["args"][:1]:
                        at = vb.prov.operand_atoms(a, interproc=False)
                        if ct is None:
                            ids |= _set_ids(at)
                        else:
                            ids |= {i for i in _set_ids(at) if i[0] == "field"}
                            for z in at:
                                if z[0] == "param" and z[1] - 1 < len(ct["args"]):
                                    ids |= _set_ids(cv.prov.operand_atoms(ct["args"][z[1] - 1], interproc=False))
    ids = {i for i in ids if i[1] not in ("unavailable_dependencies", "requesters", "self")}
    Rok = msg_region(cv, "Ok") if r.is_role(r.actors(), cv) else set()
    G = guard_region(cv, lambda d: d[0] == "field" and d[1] == "actual", True)
    found = False
    for cb, t in cv.calls():
        if re.search(r"HashSet::<.*>::insert$", callee_decl(t)):
            at = cv.prov.operand_atoms(t["args"][0], interproc=False)
            if _set_ids(at) & ids and not atom_has_field(at, "unavailable_dependencies") and not atom_has_field(at, "requesters"):
                found = True
                if not (cb in G and cb in Rok and msg_field_atoms("Ok", "target_id")(cv.prov.operand_atoms(t["args"][1], interproc=False))):
                    return False, "the set is filled outside `Ok { actual: true, .. }` or with something else than the sender's id"
    return (True, "") if found else (False, "no insertion into the tested set under a true incoming `actual`")


@rule("C11.ACTUAL-PROVENANCE", ["C11", "C20"], """`actual` is false in foreign-kind replies, true in a target's own announcements, and for an aggregate it is 'some dependency reported actual'
      (a set filled only under a true incoming `actual`)""", "K5", floor=4)
def actual_provenance(ctx):
    r = ctx.r
    from rules_c01 import classify_ok_site, _classify_ok_site
    for (b, sites) in r.bodies_constructing("ActorInputMessage", "Ok"):
        for (bb, st) in sites:
            aop = agg_field_op(st, "actual")
            inst = f"{short(b.name)}@{[s[0] for s in sites].index(bb)}"
            if not b.coroutine and b.kind in ("Fn", "AssocFn") and "ActorInputMessage" in b.ret and (st["lhs"]["local"] == 0 or 0 in b.prov.flows_forward(st["lhs"]["local"])):
                # a constructor helper: judged at each place that asks for the message, with the helper's parameters bound to the call's arguments
                for (cv, cbb, ct) in r.callers_of(b):
                    kinds = set()
                    kop = agg_field_op(st, "kind")
                    for a in b.prov.operand_atoms(kop, interproc=False):
                        if a[0] == "param" and a[1] - 1 < len(ct["args"]):
                            kinds |= kind_of_operand(cv, ct["args"][a[1] - 1])
                    kinds |= kind_of_operand(b, kop) & {"Build", "Service"}
                    act = bound_const(b, aop, cv, ct)
                    idiom, why = _classify_ok_site(r, cv, cbb, st, msg_kinds=kinds, actual=act)
                    ci = f"{inst}/via@{short(cv.name)}"
                    if idiom == "I2":
                        ctx.check(act == "false", ci, [site(b, bb), site(cv, cbb)], "a foreign-kind reply claims an actual build/service", props=["C11"])
                    elif idiom == "I1":
                        ctx.check(act == "true", ci, [site(b, bb), site(cv, cbb)], "a target's own announcement does not say `actual: true`: a requested service would not keep zinoma alive", props=["C11"])
                    elif idiom == "I3":
                        # `actual` computed by the helper from its parameters, or handed to it ready-made by the caller
                        pa = [a for a in b.prov.operand_atoms(aop, interproc=False) if a[0] == "param"] if aop is not None else []
                        plain = aop is not None and not [a for a in b.prov.operand_atoms(aop, interproc=False) if a[0] in ("callres", "field", "binop", "unop")]
                        if len(pa) == 1 and plain and pa[0][1] - 1 < len(ct["args"]):
                            ok, why3 = _some_dependency_actual(r, cv, ct["args"][pa[0][1] - 1], cv)
                        else:
                            ok, why3 = _some_dependency_actual(r, b, aop, cv, ct)
                        if not ok:
                            # the helper computes `actual` through further helpers (a small struct with one set per kind and `any(kind)` / `record(kind, id)`
                            # methods): judge the copy of the construction spliced into the actor, where all of that code is in view
                            for nb in cv.locate_all(b.name, bb):
                                for st2 in cv.stmts(nb):
                                    if st2["rv"]["k"] == "agg" and path_ends(st2["rv"].get("adt") or "", "ActorInputMessage") and st2["rv"].get("variant") == "Ok":
                                        ok2, why4 = _some_dependency_actual(r, cv, agg_field_op(st2, "actual"), cv)
                                        if ok2:
                                            ok = True
                        ctx.check(ok, ci, [site(b, bb), site(cv, cbb)], "an aggregate's `actual` is not 'some dependency reported an actual build/service of this kind': " + why3, props=["C11", "C20"])
                continue
            idiom, why = classify_ok_site(r, b, bb, st)
            if idiom is None and r.is_role(r.actors(), b) and r.actor_kinds(b):
                av = next(v for v in r.actors() if v.name == b.name)
                Rreq = msg_region(av, "Requested")
                subs = kind_subregions(av, Rreq, "Requested")
                foreign = any(k not in r.actor_kinds(av) and k != "*" and bb in blks for k, blks in subs.items())
                if foreign and not is_const(aop, "false"):
                    ctx.bad(inst, [site(b, bb)], "a reply for a kind this actor does not execute claims an actual build/service: a build-only request would keep zinoma alive", props=["C11"])
                continue
            if idiom == "I2":
                ctx.check(is_const(aop, "false"), inst, [site(b, bb)], "a foreign-kind reply claims an actual build/service", props=["C11"])
            elif idiom == "I1":
                ctx.check(is_const(aop, "true"), inst, [site(b, bb)], "a target's own announcement does not say `actual: true`: a requested service would not keep zinoma alive", props=["C11"])
            elif idiom == "I3":
                vb, vbb, vst = r.map_site(r.actors(), b, bb, st)
                ok, why3 = _some_dependency_actual(r, vb, agg_field_op(vst, "actual"), vb)
                ctx.check(ok, inst, [site(b, bb)], "an aggregate's `actual` is not 'some dependency reported an actual build/service of this kind': " + why3, props=["C11", "C20"])


@rule("C11.KEEPALIVE-GUARD", ["C11", "C20", "C10"], """the one-shot relay keeps zinoma alive after completion exactly when a requested root reported an actual service: the service-root set is filled
      only under Ok{Service} with `actual`, and the final wait for the termination signal is guarded by that set being non-empty""", "K1", floor=2)
def keepalive_guard(ctx):
    r = ctx.r
    rels = [x for x in r.relays() if not _is_watch_relay(r, x)]
    ctx.need(rels, "one-shot relay")
    for rel in rels:
        lab = short(r.fn_of(rel).name)
        Rm = variant_region(rel, "TargetActorOutputMessage", "MessageActor")
        Rroot = variant_region(rel, "ActorId", "Root", within=Rm)
        Rok = variant_region(rel, "ActorInputMessage", "Ok", within=Rroot)
        subs = kind_subregions(rel, Rok, "Ok")
        Rsvc = subs.get("Service", set())
        G = guard_region(rel, lambda d: d[0] == "field" and d[1] == "actual", True)
        ins = []
        for bb, t in rel.calls():
            if re.search(r"HashSet::<.*>::insert$", callee_decl(t)) and msg_field_atoms("Ok", "target_id")(rel.prov.operand_atoms(t["args"][1], interproc=False)):
                ins.append((bb, t))
        # the record may also be a plain flag (`has_root_service |= actual`): a named bool that starts false before the loop and is only ever or-ed with the
        # message's `actual` (or set to true under a true `actual`) in the Ok{Service} handler
        loops0 = rel.natural_loops()
        blks0 = max(loops0, key=lambda l: len(l[1]))[1] if loops0 else set()
        rec_flags = []
        for l_, loc_ in enumerate(rel.locals):
            if loc_["ty"] != "bool" or not loc_.get("name"):
                continue
            defs_ = rel.prov.defs.get(l_, ())
            inside = [(k_, x_, b_) for (k_, x_, b_) in defs_ if b_ in blks0]
            outside = [(k_, x_, b_) for (k_, x_, b_) in defs_ if b_ not in blks0]
            if not inside or not outside or not all(k_ == "assign" and x_["rv"]["k"] == "use" and const_val(x_["rv"]["op"]) == "false" for (k_, x_, b_) in outside):
                continue
            good_ = True
            for (k_, x_, b_) in inside:
                rv_ = x_["rv"] if k_ == "assign" else None
                if rv_ is None:
                    good_ = False
                elif rv_["k"] == "binop" and rv_["op"] == "BitOr":
                    ats_ = rel.prov.operand_atoms(rv_["a"], interproc=False) | rel.prov.operand_atoms(rv_["b"], interproc=False)
                    good_ = good_ and any(a[0] == "field" and a[2] == "actual" for a in ats_) and b_ in Rsvc
                elif rv_["k"] == "use" and const_val(rv_["op"]) == "true":
                    good_ = good_ and b_ in Rsvc and b_ in G
                elif rv_["k"] == "use" and rv_["op"]["k"] in ("copy", "move"):
                    good_ = good_ and any(a[0] == "field" and a[2] == "actual" for a in rel.prov.operand_atoms(rv_["op"], interproc=False)) and b_ in Rsvc
                else:
                    good_ = False
            if good_:
                rec_flags.append(l_)
        ctx.need(ins or rec_flags, "insertion into the service-root set")
        if rec_flags and not ins:
            ctx.ok(f"{lab}/service-root-insert", [rel.loc()], "the record is a flag or-ed with the `actual` of Ok{Service} messages addressed to Root")
        set_names = set()
        for bb, t in ins:
            ctx.check(bb in Rsvc and bb in G, f"{lab}/service-root-insert", [site(rel, bb)], "a root is recorded as a running service without Ok{Service, actual: true}: zinoma would stay alive for a build-only request (or the reverse)", props=["C11", "C20"])
            set_names |= {z[1] for z in rel.prov.operand_atoms(t["args"][0], interproc=False) if z[0] == "localname"}
        # final wait: an awaited recv on the termination receiver outside the loop
        loops = rel.natural_loops()
        h, blks, exits = max(loops, key=lambda l: len(l[1]))
        waits = [a for a in awaits(rel) if a.callee and re.search(r"Receiver::<[\w:]*TerminationMessage>::recv$|Receiver<[\w:]*TerminationMessage> as .*StreamExt>::next$", (a.producer[1]["callee"]["declared"] if a.producer else "")) and a.into_bb not in blks]
        ctx.check(bool(waits), f"{lab}/final-wait", [site(rel, w.into_bb) for w in waits] or [rel.loc()], "the one-shot relay never waits for the termination signal: a requested service is stopped at once", props=["C11", "C20"])
        def nonempty(d):
            return d[0] == "call" and d[1].endswith("::is_empty") and d[2] and {z[1] for z in d[2][0] if z[0] == "localname"} & set_names
        Gne = guard_region(rel, nonempty, False)
        flag_edges = [e for e in rel.edges if e.label and e.label[0] == "bool" and e.label[1] is True and e.label[2] is not None and set(rec_flags) & set(_locals_read(rel, e.label[2]))]
        for e in flag_edges:
            Gne |= rel.dominated_by_edge(e)
        for w in waits:
            ctx.check(w.producer[0] in Gne, f"{lab}/final-wait-guard", [site(rel, w.into_bb)], "the final wait is not guarded by `!service_roots.is_empty()`: a build-only run would never exit", props=["C11", "C20"])
            # ... and by nothing that could be false after a successful run: besides the non-empty test only "no termination was received yet" (a flag
            # that is false until the termination arm of the relay's select sets it)
            tarms = arm_by_payload(rel, lambda p: "TerminationMessage" in p)
            treg = set().union(*[x.region | {x.edge.dst} for x in tarms]) if tarms else set()
            odd = []
            for (e, descs, pol) in dominating_conditions(rel, w.producer[0]):
                if any(nonempty(d) for d in descs) or any(d[0] == "not" and any(nonempty(x) for x in d[1]) for d in descs):
                    continue
                if e in flag_edges:
                    continue
                if e.src in blks and any(d[0] == "call" and d[1].endswith("::is_empty") for d in descs) and pol is True:
                    continue   # the loop's own exit condition (`while !(builds.is_empty() && services.is_empty())`): what "after a successful run" means
                if not conditions_within([(e, descs, pol)], []):
                    continue   # logging-level test
                flags = [x for x in _locals_read(rel, e.label[2]) if rel.locals[x].get("name") and rel.locals[x]["ty"] == "bool"]
                is_term_flag = False
                for fl in flags:
                    defs = rel.prov.defs.get(fl, ())
                    if defs and all(kind == "assign" and x["rv"]["k"] == "use" and ((const_val(x["rv"]["op"]) == "false" and bb not in blks) or (const_val(x["rv"]["op"]) == "true" and bb in treg)) for kind, x, bb in defs):
                        is_term_flag = True
                if is_term_flag and pol is False:
                    continue
                odd.append((e, descs, pol))
            # ... and the wait must not be entered once the termination was already received inside the loop (zinoma would then wait for a *second* signal)
            blocked = False
            for (e, descs, pol) in dominating_conditions(rel, w.producer[0]):
                flags = [x for x in _locals_read(rel, e.label[2]) if rel.locals[x].get("name") and rel.locals[x]["ty"] == "bool"]
                for fl in flags:
                    defs = rel.prov.defs.get(fl, ())
                    if defs and any(kind == "assign" and x["rv"]["k"] == "use" and const_val(x["rv"]["op"]) == "true" and bb in treg for kind, x, bb in defs) and pol is False:
                        blocked = True
            # (a relay that *returns* when the termination arrives never reaches the final wait afterwards)
            if not blocked and treg and not any(w.producer[0] in rel.reach_from(x) for x in treg):
                blocked = True
            if not blocked and treg:
                # the arm hands the event over as a value of a local enum built nowhere else: what follows is what the match on that variant does
                for (abb, ast) in rel.aggregates():
                    rv = ast["rv"]
                    if abb not in treg or "adt" not in rv or rv["adt"] not in ctx.f.adts or not ctx.f.adts[rv["adt"]]["enum"] or rv["adt"].startswith("std::"):
                        continue
                    nm_, var_ = rv["adt"].split("::")[-1], rv["variant"]
                    if any(bb2 not in treg for (bb2, _) in rel.aggregates(nm_, var_)):
                        continue
                    sw = {e.src for e in rel.edges if e.label and e.label[0] == "variant" and path_ends(e.label[1] or "", nm_)}
                    Rv = variant_region(rel, nm_, var_)
                    direct = any(w.producer[0] in (rel.reach_from(x, avoid=tuple(sw)) | {x}) for x in treg)
                    via = any(w.producer[0] in (rel.reach_from(x) | {x}) for x in Rv)
                    if sw and not direct and not via:
                        blocked = True
            ctx.check(blocked or not treg, f"{lab}/final-wait-not-after-termination", [site(rel, w.into_bb)],
                      "the final wait is also entered when the termination signal was already received in the loop: zinoma then waits for a second signal and the first one is not honoured", props=["C10", "C11"])
            ctx.check(not odd, f"{lab}/final-wait-reached", [site(rel, w.into_bb)], "after a successful run with a requested service the final wait is skipped unless a further condition holds (" + fmt_conds(odd) + "): zinoma would exit and stop the service", props=["C11", "C20"])


@rule("C11.STOP-DOMINATES-SPAWN", ["C11", "C10"], """restarting a service stops the old instance (awaited) before spawning the new one""", "K1", floor=1)
def stop_dominates_spawn(ctx):
    r = ctx.r
    stops = {r.fn_of(s).name for s in stop_fns(ctx)}
    n = 0
    for (b, bb, t) in r.spawn_sites():
        if r.is_role(r.script_runners(), b) or not t["callee"]["base"].endswith("Command::spawn") or not _service_side(r, b):
            continue
        n += 1
        aw = [a for a in awaits(b) if a.callee in stops and a.ready_bb is not None and b.dominates(a.ready_bb, bb)]
        ctx.check(bool(aw), f"{short(b.name)}", [site(b, bb)], "the service is spawned without first awaiting the stop of the previous instance: two instances can run concurrently")
    ctx.need(n >= 1, "service spawn site")


@rule("C11.SINGLE-SLOT", ["C11"], """the service process slot is filled only with the freshly spawned child and emptied only by `take()` in the stop function""", "K4", floor=2)
def single_slot(ctx):
    r = ctx.r
    f = ctx.f
    ws = r.field_writes("service_process", "ServiceTargetActor")
    ctx.need(ws, "writes to the service process slot")
    for (b, bb, st) in ws:
        rv = st["rv"]
        if rv["k"] == "agg" and "adt" in rv and path_ends(rv["adt"], "ServiceTargetActor"):
            op = agg_field_op(st, "service_process")
            ctx.check(operand_local(op) is None or assigned_agg_variants(b, {"rv": {"k": "use", "op": op}}) == {"None"}, f"{short(b.name)}/init", [site(b, bb)], "the process slot does not start empty")
            continue
        v = assigned_agg_variants(b, st)
        if v == {"Some"}:
            at = set()
            for kind, x, pb in b.prov.direct_producers(operand_local(rv["op"])) if rv["k"] == "use" and operand_local(rv["op"]) is not None else []:
                if kind == "agg":
                    at |= b.prov.operand_atoms(x["rv"]["ops"][0])
            ctx.check(any(c.endswith("Command::spawn") for c in atom_callres(at)), f"{short(b.name)}/fill", [site(b, bb)], "the process slot is filled with something other than the freshly spawned child")
        else:
            ctx.bad(f"{short(b.name)}/write", [site(b, bb)], f"the process slot is overwritten ({sorted(v)}) outside spawn/take: a running service would be forgotten without being killed")
    takes = [(b, bb) for b in f.user_bodies() for bb, t in b.calls() if re.search(r"Option::<async_process::Child>::take$", callee_decl(t))]
    stops = stop_fns(ctx)
    for (b, bb) in takes:
        ctx.check(b in stops, f"{short(b.name)}/take", [site(b, bb)], "the process slot is emptied outside the stop function")


# ------------------------------------------------------------------ C17
@rule("C17.TASK-PER-ACTOR", ["C17"], """every actor's run future is handed to task::spawn (not awaited in place, not block_on)""", "K5", floor=3)
def task_per_actor(ctx):
    r = ctx.r
    f = ctx.f
    for a in r.actors():
        fn = r.fn_of(a).name
        uses = f.cg.spawn_roots.get(fn, []) + f.cg.spawn_roots.get(a.name, [])
        spawned = [u for u in uses if u[0] == "spawn"]
        callers = r.callers_of(a)
        inline = [(cb, bb) for (cb, bb, t) in callers if await_of_call(cb, bb) is not None]
        raw_sites = {(cb.origin(bb), cb.blocks[bb].get("orig_id", bb)) for (cb, bb, t) in callers}   # a launcher spliced in at several places is one call site
        ctx.check(bool(spawned) and not inline and len(spawned) == len(raw_sites), f"{r.actor_label(a)}", [site(f.bodies[u[1]], u[2]) for u in spawned] or [a.loc()],
                  "the actor is not run as its own task (awaited inline or blocked on): targets would run one after the other")


LOCK_ACQUIRE = re.compile(r"(Mutex|RwLock|Semaphore)(<.*>)?::(<.*>::)?(lock|read|write|acquire|acquire_arc|lock_arc|try_lock|upgradable_read)$|Barrier::wait$|Condvar::wait")


def lock_sites(f):
    out = []
    for b in f.user_bodies():
        for bb, t in b.calls():
            if LOCK_ACQUIRE.search(t["callee"]["base"]) or LOCK_ACQUIRE.search(callee_decl(t).split("<")[0] if False else callee_decl(t)):
                out.append((b, bb, t))
    return out


@rule("C17.NO-LOCK-ACROSS-WORK", ["C17"], """no lock or semaphore guard is held across an await or a process wait in the actors, the script runner or the incremental runner (nothing
      serialises independent targets)""", "K1", floor=0)
def no_lock_across_work(ctx):
    f = ctx.f
    sites = lock_sites(f)
    bad = 0
    for (b, bb, t) in sites:
        # the guard: guard-typed locals receiving the (awaited) result of the acquisition
        fl = b.prov.flows_forward(t["dest"]["local"])
        guards = {l for l in fl if re.search(r"Guard", b.locals[l]["ty"]) and not b.locals[l]["ty"].startswith("&")}
        # a local whose value is moved on into another local of the chain does not own the guard any more (its drop is a no-op)
        moved_on = set()
        for l in guards:
            for kind, x, ub in b.prov.uses_of(l):
                if kind == "assign" and x["lhs"]["local"] in fl and x["lhs"]["local"] != l:
                    pl, _ = rv_sources(x["rv"])
                    if x["rv"]["k"] == "use" and x["rv"]["op"]["k"] == "move":
                        moved_on.add(l)
        guards -= moved_on
        own = await_of_call(b, bb)
        start = own.ready_bb if own and own.ready_bb is not None else bb
        drops = {x["id"] for x in b.normal_blocks() if x["term"]["k"] == "drop" and x["term"]["place"]["local"] in guards and not x["term"]["place"]["proj"]}
        # a guard bound to `_` or never bound is dropped at once: its temporaries' drops end the range too
        if not guards:
            drops = {x["id"] for x in b.normal_blocks() if x["term"]["k"] == "drop" and x["term"]["place"]["local"] in fl}
        reach = b.reach_from(start, avoid=tuple(drops)) | {start}
        ys = [x for x in reach if b.term(x)["k"] == "yield"]
        waits = [x for x in reach if b.term(x)["k"] == "call" and b.term(x)["callee"] and is_process_wait(b.term(x)["callee"]["base"])]
        if "Barrier::wait" in t["callee"]["base"] or "Condvar::wait" in t["callee"]["base"] or ys or waits:
            bad += 1
            ctx.bad(f"{short(b.name)}/{t['callee']['base'].split('::')[-1]}", [site(b, bb)], "a lock/semaphore guard is held across an await or a process wait: independent targets are serialised")
    if not bad:
        ctx.ok("locks", [f"{len(sites)} lock acquisition site(s) examined"], "none is held across slow work")


@rule("C17.RELAY-PURE", ["C17"], """the engine relays do no slow work themselves: no process spawn/wait, no directory walk, no file hashing on the relay task""", "K6", floor=2)
def relay_pure(ctx):
    r = ctx.r
    f = ctx.f
    for rel in r.relays():
        reach = f.cg.reach([rel.name], cross_spawn=False)
        bad = []
        for n in reach:
            b = f.bodies[n]
            for bb, t in b.calls():
                base = t["callee"]["base"]
                if is_process_spawn(base) or is_process_wait(base) or base in ("walkdir::WalkDir::new",) or base.endswith("fs::read_dir") or base.endswith("Hasher::write"):
                    bad.append((b, bb, base))
        ctx.check(not bad, f"{short(rel.name)}", [site(b, bb) for b, bb, _ in bad[:4]] or [rel.loc()], "the relay task itself spawns/waits for processes or walks directories: all targets wait for it" + (f" ({bad[0][2]})" if bad else ""),
                  detail=f"{len(reach)} bodies on the relay task")


@rule("C17.ROOTS-UPFRONT", ["C17"], """every requested root is requested before the engine starts relaying: the request loop waits for nothing on the output channel""", "K1", floor=1)
def roots_upfront(ctx):
    r = ctx.r
    f = ctx.f
    relays = {r.fn_of(x).name for x in r.relays()}
    n = 0
    for b in f.user_bodies():
        if not b.coroutine or r.is_role(r.relays(), b):
            continue
        calls_relay = [bb for bb, t in b.calls() if callee_base(t) in relays]
        if not calls_relay:
            continue
        n += 1
        # the loop requesting the roots
        req = []
        # (recognised by what its body does - it asks for a target on behalf of Root - not by the name of the list it ranges over)
        root_req_fns = set()
        for xb in f.user_bodies():
            for (xbb, xst) in xb.aggregates("ActorInputMessage", "Requested"):
                rq = agg_field_op(xst, "requester")
                if rq is not None and "Root" in atom_aggs(xb.prov.operand_atoms(rq), "ActorId"):
                    root_req_fns |= {xb.name, r.fn_of(xb).name, r.outer_fn(xb).name, r.fn_of(r.outer_fn(xb)).name}
        def asks_for_root(blks):
            for x in blks:
                tx = b.term(x)
                if tx["k"] == "call" and tx["callee"]:
                    cn = callee_base(tx)
                    if cn in root_req_fns or (cn in f.bodies and root_req_fns & f.cg.reach([cn], cross_spawn=False)):
                        return True
            return False
        for (nbb, sbb, ne, se, blks, it_atoms) in for_loops(b):
            if asks_for_root(blks):
                recvs = [x for x in blks if b.term(x)["k"] == "call" and b.term(x)["callee"] and re.search(r"Receiver<.*TargetActorOutputMessage>", callee_decl(b.term(x)))]
                dominates = all(b.dominates(ne.dst, c) if ne else False for c in calls_relay)
                req.append((nbb, recvs, dominates))
        ctx.check(bool(req) and all(not rc and dom for (_, rc, dom) in req), f"{short(b.name)}", [site(b, x[0]) for x in req] or [b.loc()],
                  "the roots are not all requested before relaying starts (or the request loop waits on the output channel): independent roots would run one after the other")
    ctx.need(n >= 1, "engine entry calling the relays")


# ------------------------------------------------------------------ C20
@rule("C20.PER-KIND-FANOUT", ["C20"], """the aggregate requests its dependencies with the kind of the incoming request, once per kind (on the first requester of that kind)""", "K5", floor=1)
def per_kind_fanout(ctx):
    r = ctx.r
    req_fns = [b for (b, s) in r.bodies_constructing("ActorInputMessage", "Requested") if b in r.helper_methods()]
    n = 0
    for a in r.actors():
        if r.actor_kinds(a):
            continue
        n += 1
        Rreq = msg_region(a, "Requested")
        calls = [(bb, t) for bb, t in calls_to_role(r, a, req_fns, Rreq) if is_awaited(a, bb)]
        kinds = set()
        for bb, t in calls:
            kinds |= kind_of_operand(a, t["args"][1])
        ctx.check(bool(calls) and "msg" in kinds and not (kinds & {"Build", "Service"}), f"{r.actor_label(a)}/request-deps-with-incoming-kind", [site(a, c[0]) for c in calls] or [a.loc()],
                  f"the aggregate requests its dependencies with kind {sorted(kinds)} instead of the kind it was asked for")
        # the forwarded Ok carries the incoming kind and is sent to the requesters of that kind
        for (bb, st) in a.aggregates("ActorInputMessage", "Ok"):
            k = kind_of_operand(a, agg_field_op(st, "kind"))
            ctx.check("msg" in k and not (k & {"Build", "Service"}), f"{r.actor_label(a)}/ok-kind@{bb}", [site(a, bb)], f"the aggregate's Ok carries kind {sorted(k)} instead of the incoming kind")
    ctx.need(n >= 1, "aggregate actor")


@rule("C10.RELAY-OWNS-RECEIVER", ["C10", "C04"], """the receiving end of the bounded actor-output channel has a single owner that is moved into the engine: when the relay returns the channel closes, so actors
      blocked in a send wake up and can observe termination (a second, undrained receiver handle would keep them blocked for ever)""", "K4", floor=1)
def relay_owns_receiver(ctx):
    f = ctx.f
    r = ctx.r
    RX = r"async_std::channel::Receiver<[\w:]*TargetActorOutputMessage>$"
    # receiver handles stored in a struct: each must be dropped by the shutdown before the first termination message is sent
    stored = [(a["path"], fd["name"]) for a in f.adt_list for v in a["variants"] for fd in v["fields"] if re.search(RX, fd["ty"])]
    dropped_fields = set()
    for (adt, fname) in stored:
        ok = False
        where = []
        term_senders = {b.name for b in f.user_bodies() if any(tyname(s_[2]) == "TerminationMessage" for s_ in send_calls(b))}
        for raw in f.user_bodies():
            S = r.V(raw)
            drops = [bb for bb, t in S.calls() if S.origin(bb) == raw.name and re.search(r"mem::drop(::<.*>)?$", callee_base(t)) and t["args"] and t["args"][0]["k"] == "move"
                     and not t["args"][0]["place"]["proj"] and re.search(RX, S.locals[t["args"][0]["place"]["local"]]["ty"])
                     and any(a_[0] == "field" and a_[2] == fname for a_ in S.prov.operand_atoms(t["args"][0], interproc=False))]
            if not drops:
                continue
            # everything in this function that sends (or leads to the sending of) a termination message comes after the drop
            sends = [s_[0] for s_ in send_calls(S) if tyname(s_[2]) == "TerminationMessage"]
            sends += [bb for bb, t in S.calls() if callee_base(t) in f.bodies and term_senders & (f.cg.reach([callee_base(t)], cross_spawn=False) | {callee_base(t)})]
            for bb in drops:
                where.append(site(S, bb))
                if sends and all(S.dominates(bb, x) for x in sends if x != bb):
                    ok = True
        ctx.check(ok, f"{short(adt)}.{fname}/dropped-before-termination", where or [f"{adt}"],
                  f"a receiver handle of the bounded actor-output channel is stored in `{short(adt)}.{fname}` and is not dropped before the shutdown sends the termination messages: "
                  "it keeps the channel open, actors blocked in `send` never wake, and shutdown hangs")
        if ok:
            dropped_fields.add(fname)
    clones = []
    for b in f.user_bodies():
        for bb, t in b.calls():
            if re.search(r"<async_std::channel::Receiver<[\w:]*TargetActorOutputMessage> as std::clone::Clone>::clone$", callee_decl(t)):
                # a clone of a stored handle that the shutdown drops first is harmless if it is only lent to the engine (it dies with the relay)
                src_fields = {pr.get("name") for a_ in b.prov.operand_atoms(t["args"][0], interproc=False) if a_[0] == "field" for pr in [{"name": a_[2]}]}
                clones.append((b, bb, bool(src_fields & dropped_fields)))
    for (b, bb, ok) in clones:
        ctx.check(ok, f"{short(b.name)}/clone", [site(b, bb)], "the receiver of the bounded actor-output channel is cloned: a handle that outlives the relay keeps the channel open, actors blocked in `send` never wake, and shutdown hangs")
    ma = r.main_async()
    relays = {r.fn_of(x).name for x in r.relays()}
    def is_creation(t):
        return re.search(r"channel::(bounded|unbounded)$", t["callee"]["base"]) and t["callee"]["gargs"] and tyname(t["callee"]["gargs"][0]) == "TargetActorOutputMessage"
    created = [(bb, t) for bb, t in ma.calls() if is_creation(t)]
    stored_ok = bool(stored) and all(fn in dropped_fields for _, fn in stored)
    if created:
        # the receiver created next to TargetActors is moved into the engine entry (or it is a stored handle that the shutdown drops first)
        for bb, t in created:
            fl = ma.prov.flows_forward(t["dest"]["local"])
            moved = False
            for cb, ct in ma.calls():
                cn = callee_base(ct)
                if cn in f.bodies and relays & f.cg.reach([cn], cross_spawn=False):
                    for a in ct["args"]:
                        # the handle itself changes hands (a `&mut Receiver` lent to the engine leaves the owner - and the open channel - in main)
                        if a["k"] == "move" and a["place"]["local"] in fl and re.match(r"async_std::channel::Receiver<", ma.locals[a["place"]["local"]]["ty"]):
                            moved = True
            ctx.check((moved or stored_ok) and all(ok for _, _, ok in clones), "main/receiver-moved-into-engine", [site(ma, bb)], "the receiver of the actor-output channel is not handed over (moved) to the engine")
    else:
        anywhere = [(b, bb) for b in f.user_bodies() for bb, t in b.calls() if is_creation(t)]
        ctx.need(anywhere, "creation of the actor-output channel")
        # created elsewhere (e.g. by the actor registry): then the receiver lives in a struct, and the stored-handle obligation above applies
        ctx.check(stored_ok, "receiver-owner", [site(b, bb) for b, bb in anywhere],
                  "the actor-output channel is created outside main and its receiver is neither moved into the engine nor a stored handle that the shutdown drops first")
