"""C02 / C03 / C05 / C06.SNAPSHOT-ORDER / C18 state-path rules: the incremental (checksum) machinery."""
from common import *
from engine import rule, AnchorLost
from rules_c01 import _must_pass


# ------------------------------------------------------------------ roles of this module
def runner(ctx):
    rs = ctx.r.incremental_runners()
    ctx.need(len(rs) == 1, f"exactly one incremental runner (body constructing IncrementalRunResult::Completed); found {len(rs)}")
    return rs[0]


def script_await(ctx, R):
    """the await of the script future: the awaited value is a parameter of the runner itself (a captured variable of its own async body), not the
    result of a call - and not an await that merely became visible because a helper was spliced into the view"""
    def from_own_env(l):
        for o in origins(R, l):
            if o[0] == "field" and len(o[1]) == 1 and any(x[0] == "param" and x[1] == 1 for x in o[2]):
                return True
        return False
    c = [a for a in awaits(R) if a.producer is None and a.fut_local is not None and R.origin(a.into_bb) == R.name and from_own_env(a.fut_local)]
    if not c:
        # the runner is given a factory (`build: impl FnOnce() -> F`) and awaits `build()`: the call of a parameter
        c = [a for a in awaits(R) if a.producer is not None and R.origin(a.into_bb) == R.name and re.search(r"ops::(FnOnce|FnMut|Fn)>?::call(_once|_mut)?$", callee_base(a.producer[1]))
             and a.producer[1]["args"] and operand_local(a.producer[1]["args"][0]) is not None and from_own_env(operand_local(a.producer[1]["args"][0]))]
    ctx.need(len(c) == 1, f"the await of the script future (a parameter) in the incremental runner; found {len(c)}")
    return c[0]


def state_fn(ctx, api_pred, what):
    sites = ctx.r.state_fns(api_pred)
    ctx.need(sites, f"{what} (fs API applied to the state path)")
    # the function that applies the API to the state path: the one that obtains the path from the state path function (the site itself may sit in a
    # helper spliced into it, and the function may in turn be spliced into its callers' views)
    spf = {x.name for x in ctx.r.state_path_fns()}
    fns = set()
    for (b, bb, t) in sites:
        l = operand_local(t["args"][0]) if t["args"] else None
        got = [cb for cb, ct in b.calls() if callee_base(ct) in spf and ct.get("dest") is not None and l is not None and l in b.prov.flows_forward(ct["dest"]["local"])]
        for cb in got:
            fns.add(ctx.r.outer_fn(ctx.f.bodies[b.origin(cb)]).name)
        if not got:
            # the path was captured by this closure: it was obtained in the enclosing function
            fns.add(ctx.r.outer_fn(ctx.f.bodies[b.name]).name)
    fns = sorted(fns)
    return fns, sites


def state_delete_fns(ctx):
    return state_fn(ctx, is_fs_delete, "state delete function")


def state_save_fns(ctx):
    return state_fn(ctx, is_fs_write, "state save function")


def state_read_fns(ctx):
    return state_fn(ctx, lambda n: n.endswith("fs::File::open") or n.endswith("File::open"), "state read function")


def _record_arg(body, t):
    """the argument of the state-save call that carries the record: the one typed as the recorded state (not the target it is saved for)"""
    for a in t["args"]:
        l = operand_local(a)
        if l is not None and re.search(r"(TargetEnvState|ResourcesState)", body.locals[l]["ty"]):
            return a
    return t["args"][1] if len(t["args"]) > 1 else None


def completed_region(ctx, R):
    """blocks of the runner that run only for a completed build: the `Completed` arm of a match on the build report, or the true side of a test through a small
    accessor that is true exactly for that variant (`if report.is_completed() { .. }`)"""
    f = ctx.f
    out = set(variant_region(R, "BuildTerminationReport", "Completed"))
    accessors = set()
    for x in f.user_bodies():
        if x.kind in ("Fn", "AssocFn") and x.ret == "bool" and x.argc == 1 and re.search(r"^&?[\w:]*BuildTerminationReport$", x.locals[1]["ty"]):
            tps, _ = true_paths(x)
            if tps and all(has_fact(facts, "variant", ("Completed",), lambda o: True) for (p_, facts, ro) in tps):
                accessors.add(x.name)
                continue
            # `matches!(self, Self::Completed)` compiles to `discriminant(self) == <index of Completed>` without any branch
            adt = next((a_ for p_, a_ in f.adts.items() if path_ends(p_, "BuildTerminationReport")), None)
            idx = [i for i, v_ in enumerate(adt["variants"]) if v_["name"] == "Completed"] if adt else []
            stmts_ = [st for blk in x.normal_blocks() for st in blk["stmts"]]
            has_discr = any(st["rv"]["k"] == "discr" for st in stmts_)
            eqs = [st for st in stmts_ if st["rv"]["k"] == "binop" and st["rv"]["op"] == "Eq" and any(o_["k"] == "const" and re.match(rf"{idx[0]}(_\w+)?$", str(o_.get("val"))) for o_ in (st["rv"]["a"], st["rv"]["b"]))] if idx else []
            if has_discr and len(eqs) == 1 and not any(blk["term"]["k"] == "switch" for blk in x.normal_blocks()):
                accessors.add(x.name)
                continue
            # `*self == Self::Completed` (derived PartialEq)
            cs = [(bb_, t_) for bb_, t_ in x.calls()]
            if len(cs) == 1 and re.search(r"BuildTerminationReport as std::cmp::PartialEq>::eq$", callee_decl(cs[0][1])) and cs[0][1].get("dest") and 0 in (x.prov.flows_forward(cs[0][1]["dest"]["local"]) | {cs[0][1]["dest"]["local"]}) \
                    and any("Completed" in atom_aggs(x.prov.operand_atoms(a_), "BuildTerminationReport") for a_ in cs[0][1]["args"]):
                accessors.add(x.name)
    if accessors:
        out |= guard_region(R, lambda d: d[0] == "call" and d[1] in accessors, True)
    return out


def awaited_local_calls(body, names, blocks=None):
    """[(call_bb, term, Await)] of awaited calls to one of `names`"""
    out = []
    for a in list(awaits(body)) + list(joined_awaits(body)):
        if a.producer and callee_base(a.producer[1]) in names and (blocks is None or a.producer[0] in blocks):
            out.append((a.producer[0], a.producer[1], a))
    return out


def is_result_of(o, a):
    """origin o is the result of Await a (for a future awaited through a join combinator: the result of the join)"""
    return o[0] == "await" and (o[3] is a or (a.join is not None and o[3] is a.join))


def comparison_predicates(ctx, R):
    """local async fns awaited in the runner whose result, when true, leads to Skipped: [(fn name, Await, edge, Skipped block)].
    The runner's own code is looked at first; code spliced in from helpers only if the runner itself has no such test."""
    out = []
    for own_only in (True, False):
        for (bb, st) in R.aggregates("IncrementalRunResult", "Skipped"):
            for e in R.edges:
                if e.label and e.label[0] == "bool" and e.label[1] is True and bb in R.dominated_by_edge(e):
                    if own_only and R.origin(e.src) != R.name:
                        continue
                    for o in edge_origin(R, e)[:1]:   # the value tested itself, not what a spliced-in callee computed it from
                        if o[0] == "await" and o[1] in ctx.f.bodies:
                            out.append((o[1], o[3], e, bb))
                # ... or the verdict is a small crate-local enum (`match compare(..).await { Verdict::UpToDate => Skipped, .. }`)
                if e.label and e.label[0] == "variant" and len(e.label[2]) == 1 and e.label[1] in ctx.f.adts and ctx.f.adts[e.label[1]]["enum"] and bb in R.dominated_by_edge(e):
                    if own_only and R.origin(e.src) != R.name:
                        continue
                    for o in edge_origin(R, e)[:1]:
                        if o[0] == "await" and o[1] in ctx.f.bodies:
                            out.append((o[1], o[3], e, bb))
        if out:
            break
    return out


def verdict_paths(ctx, b, edge):
    """paths of predicate body b on which it gives the verdict that `edge` (in the runner) tests: `true`, or the enum variant of a variant edge"""
    if edge.label[0] == "bool":
        return true_paths(b)
    V = edge.label[2][0]
    allp = enumerate_paths(b)
    out = []
    for p in allp:
        ro = ret_origins(b, p)
        if any(o[0] == "agg" and o[2] == V for o in ro) or any(o[0] == "const" and str(o[1]).endswith("::" + V) for o in ro):
            if feasible_path(b, p):
                out.append((p, path_facts(b, p), ro))
    return out, len(allp)


def edges_on_await(R, aw, adt_suffix, variant):
    """switch edges of R taking `variant` of the value (or of a payload of the value) produced by await `aw`"""
    out = []
    for e in R.edges:
        l = e.label
        if l and l[0] == "variant" and path_ends(l[1] or "", adt_suffix) and l[2] == (variant,):
            if origin_matches(edge_origin(R, e), lambda x: x[0] == "await" and x[3] is aw):
                out.append(e)
    return out


# ------------------------------------------------------------------ C02
@rule("C02.SKIP-GUARD", ["C02"], """IncrementalRunResult::Skipped is constructed only under the true edge of the awaited comparison predicate""", "K1", floor=1)
def skip_guard(ctx):
    R = runner(ctx)
    sites = list(R.aggregates("IncrementalRunResult", "Skipped"))
    others = [(b, s) for (b, s) in ctx.r.bodies_constructing("IncrementalRunResult", "Skipped") if b.name != R.name and not ctx.r.contains(ctx.f.bodies[R.name], b)]
    for (b, ss) in others:
        for (bb, st) in ss:
            ctx.bad(f"{short(b.name)}", [site(b, bb)], "Skipped is constructed outside the incremental runner")
    ctx.need(sites, "construction of IncrementalRunResult::Skipped in the incremental runner")
    cps = comparison_predicates(ctx, R)
    guarded = {x[3] for x in cps}
    for (bb, st) in sites:
        ctx.check(bb in guarded, f"{short(R.name)}/Skipped", [site(R, bb)],
                  "Skipped is returned on a path that has not seen the comparison predicate return true")


@rule("C02.NO-RECORD-NO-SKIP", ["C02"], """the comparison predicate returns true only if a record was read (Some) and the awaited comparison of that
      record with the current state returned true""", "K2", floor=2)
def no_record_no_skip(ctx):
    R = runner(ctx)
    cpe = {x[0]: x[2] for x in comparison_predicates(ctx, R)}
    cps = set(cpe)
    ctx.need(cps, "comparison predicate guarding Skipped")
    reads, _ = state_read_fns(ctx)
    for cp in cps:
        b = ctx.f.coroutine_of(cp)
        ctx.need(b, f"async body of {cp}")
        tps, n = verdict_paths(ctx, b, cpe[cp])
        ctx.need(tps, "a path of the comparison predicate that can return true")
        miss_some, miss_eq = [], []
        for (p, facts, ro) in tps:
            if not has_fact(facts, "variant", ("Some",), is_await_of(lambda c: c in reads)):
                miss_some.append(p)
            # the returned value is the awaited result of a local comparison whose receiver derives from the record
            ok = False
            # (for an enum verdict: the comparison is the awaited bool that was true on this path)
            cands = list(ro) + [x for (k, v, orig, e) in facts if k == "bool" and v is True for x in orig]
            for o in cands:
                if o[0] == "await" and o[1] in ctx.f.bodies and o[1] not in reads:
                    t = o[3].producer[1]
                    at = set()
                    for a in t["args"]:
                        at |= b.prov.operand_atoms(a, interproc=False)
                    if ("variant", "Some") in at:
                        ok = True
            if not ok:
                miss_eq.append(p)
        ctx.check(not miss_some, f"{short(cp)}/record-is-Some", [b.loc()], f"{len(miss_some)} true-returning path(s) do not require a stored record: e.g. {fmt_path(b, miss_some[0]) if miss_some else ''}",
                  detail=f"{n} paths, {len(tps)} can return true")
        ctx.check(not miss_eq, f"{short(cp)}/compared", [b.loc()], f"{len(miss_eq)} true-returning path(s) do not return the result of comparing the record with the current state")


def both_fns(ctx):
    """the `both` combinator: generic local async fn (two future parameters) returning bool that awaits a select of the two"""
    out = []
    for b in ctx.f.user_bodies():
        if b.coroutine and b.ret == "bool" and ctx.r.fn_of(b).argc == 2 and any(a.callee and a.callee.endswith("future::select") for a in awaits(b)):
            out.append(b)
    return out


def all_fns(ctx):
    """the `all` combinator: generic local async fn over an iterator of futures returning bool, looping over a stream"""
    out = []
    for b in ctx.f.user_bodies():
        if b.coroutine and b.ret == "bool" and ctx.r.fn_of(b).argc == 1 and any(a.callee and a.callee.endswith("StreamExt::next") for a in awaits(b)):
            out.append(b)
        elif b.coroutine and b.ret == "bool" and ctx.r.fn_of(b).argc == 1 and any(a.callee and a.callee.endswith("StreamExt::all") for a in awaits(b)):
            out.append(b)   # `stream.all(ready).await`: the library's own conjunction (judged by `identity-predicate` below)
    return out


@rule("C02.COMBINATORS", ["C02"], """`both` returns true only if both futures yielded true; `all` returns true only after the stream is exhausted and
      returns false for every false item""", "K2", floor=2)
def combinators(ctx):
    bs = both_fns(ctx)
    ctx.need(bs, "`both` combinator")
    for b in bs:
        tps, n = true_paths(b)
        ctx.need(tps, "true-returning path of `both`")
        bad = []
        for (p, facts, ro) in tps:
            first_true = has_fact(facts, "bool", True, is_await_of(lambda c: c.endswith("future::select")))
            second = False
            for o in ro:
                if o[0] == "await":
                    fo = origins(b, o[3].fut_local) if o[3].fut_local is not None else []
                    if origin_matches(fo, is_await_of(lambda c: c.endswith("future::select"))):
                        second = True
            if not (first_true and second):
                bad.append(p)
        ctx.check(not bad, f"{short(b.name)}/both-true", [b.loc()], f"{len(bad)} of {len(tps)} true-returning path(s) do not require the first result to be true and return the second: e.g. {fmt_path(b, bad[0]) if bad else ''}",
                  detail=f"{n} paths, {len(tps)} can return true")
    als = all_fns(ctx)
    ctx.need(als, "`all` combinator")
    for b in als:
        lib_all = [a for a in awaits(b) if a.callee and a.callee.endswith("StreamExt::all")]
        if lib_all and not any(a.callee and a.callee.endswith("StreamExt::next") for a in awaits(b)):
            # written with the stream combinator: `all` of the verdicts themselves (the predicate hands each verdict back: `future::ready`), returned as it is
            good = False
            for a in lib_all:
                t_ = a.producer[1]
                ident = any(x_["k"] == "const" and re.search(r"future::ready(::<.*>)?$", str(x_.get("fn") or x_.get("val") or "")) for x_ in t_["args"][1:])
                returned = a.poll_call_bb is not None and b.term(a.poll_call_bb).get("dest") is not None and 0 in b.prov.flows_forward(b.term(a.poll_call_bb)["dest"]["local"])
                good = good or (ident and returned)
            ctx.check(good, f"{short(b.name)}/identity-predicate", [site(b, lib_all[0].into_bb)], "`all` is written with `StreamExt::all` but its predicate is not the verdict itself, or its result is not what is returned")
            continue
        paths = enumerate_paths(b)
        is_next = is_await_of(lambda c: c.endswith("StreamExt::next"))
        bad_true, false_ok, bad_false = [], 0, []
        for p in paths:
            facts = path_facts(b, p)
            ro = ret_origins(b, p)
            item_false = has_fact(facts, "bool", False, is_next)
            if is_const_ret(ro, "false"):
                if item_false:
                    false_ok += 1
                continue
            if not has_fact(facts, "variant", ("None",), is_next):
                bad_true.append(p)
            if item_false:
                bad_false.append(p)
        ctx.check(not bad_true, f"{short(b.name)}/true-only-at-exhaustion", [b.loc()], f"`all` can return true before the stream is exhausted: {fmt_path(b, bad_true[0]) if bad_true else ''}")
        ctx.check(false_ok >= 1 and not bad_false, f"{short(b.name)}/false-item-is-false", [b.loc()],
                  "a false item does not make `all` return false" if not bad_false else f"a path sees a false item and can still return true: {fmt_path(b, bad_false[0])}")
        # every item taken from the stream is looked at: an awaited `next()` whose result is dropped (to "free a slot", to "skip one") loses a verdict
        dropped = [a for a in awaits(b) if a.callee and a.callee.endswith("StreamExt::next")
                   and not any(e.label and origin_matches(edge_origin(b, e), lambda o: o[0] == "await" and o[2] == a.into_bb) for e in b.edges)]
        ctx.check(not dropped, f"{short(b.name)}/every-item-inspected", [site(b, a.into_bb) for a in dropped] or [b.loc()],
                  "an item is taken from the stream of verdicts and discarded without being looked at: a `false` (changed) verdict can be lost and the target wrongly skipped")


def _call_args_atoms(b, t):
    return [b.prov.operand_atoms(a, interproc=False) for a in t["args"]]


@rule("C02.BOTH-SIDES", ["C02"], """the record comparison combines (with `both`) a comparison of the recorded input with the declared input and one of the
      recorded output with the declared output; a declared resource set with no recorded state compares false""", "K5", floor=3)
def both_sides(ctx):
    f = ctx.f
    bnames = {ctx.r.fn_of(b).name for b in both_fns(ctx)}
    ctx.need(bnames, "`both` combinator")
    # bodies that await both(...) over fields of TargetEnvState / ResourcesState
    found_env = found_res = 0
    for b in f.user_bodies():
        if not b.coroutine:
            continue
        for (cbb, t, a) in awaited_local_calls(b, bnames):
            ats = _call_args_atoms(b, t)
            if len(ats) != 2:
                continue
            fields0 = {x[2] for x in ats[0] if x[0] == "field"}
            fields1 = {x[2] for x in ats[1] if x[0] == "field"}
            ret_is_both = any(o[0] == "await" and o[1] in bnames for p in enumerate_paths(b)[:50] for o in ret_origins(b, p))
            if ({"input"} <= fields0 | fields1) or ({"output"} <= fields0 | fields1):
                found_env += 1
                good = ("input" in fields0 and "output" in fields1 and "output" not in fields0) or ("input" in fields1 and "output" in fields0 and "output" not in fields1)
                # each side must also see the corresponding declared resources (parameters target_input / target_output)
                names0 = {x[2] for x in ats[0] if x[0] == "field" and x[1].startswith("{env of")}
                names1 = {x[2] for x in ats[1] if x[0] == "field" and x[1].startswith("{env of")}
                side_in, side_out = (names0, names1) if "input" in fields0 else (names1, names0)
                good = good and any("input" in n for n in side_in) and any("output" in n for n in side_out)
                ctx.check(good and ret_is_both, f"{short(b.name)}/input+output", [site(b, cbb)],
                          "the comparison of the record does not combine (recorded input vs declared input) with (recorded output vs declared output)")
            if {"fs", "cmd_stdout"} & (fields0 | fields1):
                found_res += 1
                good = ("fs" in fields0 and "files" in fields0 and "cmd_stdout" in fields1 and "cmds" in fields1) or ("fs" in fields1 and "files" in fields1 and "cmd_stdout" in fields0 and "cmds" in fields0)
                ctx.check(good and ret_is_both, f"{short(b.name)}/fs+cmd", [site(b, cbb)],
                          "the resource-state comparison does not combine the file comparison (fs vs files) with the command comparison (cmd_stdout vs cmds)", props=["C02"])
    ctx.need(found_env >= 1, "record comparison awaiting both(input.., output..)")
    ctx.need(found_res >= 1, "resource-state comparison awaiting both(fs.., cmd_stdout..)")
    # inner eq: declared Some and recorded None => false
    n_inner = 0
    for b in f.user_bodies():
        if not b.coroutine or b.ret != "bool":
            continue
        fn = ctx.r.fn_of(b)
        # the parameters are recognised by their types (there may be others, e.g. a label for log messages)
        res_field = [l.get("name") for l in fn.locals[1:fn.argc + 1] if re.search(r"^std::option::Option<&[\w:]*Resources>$", l["ty"])]
        st_field = [l.get("name") for l in fn.locals[1:fn.argc + 1] if re.search(r"^std::option::Option<&[\w:]*ResourcesState>$", l["ty"])]
        if len(res_field) == 1 and len(st_field) == 1:
            n_inner += 1
            bad = []
            for p in enumerate_paths(b):
                facts = path_facts(b, p)
                decl_some = any(k == "variant" and v == ("Some",) and origin_matches(o, lambda x: x[0] == "field" and x[1][-1:] == tuple(res_field)) for (k, v, o, e) in facts)
                rec_none = any(k == "variant" and v == ("None",) and origin_matches(o, lambda x: x[0] == "field" and x[1][-1:] == tuple(st_field)) for (k, v, o, e) in facts)
                if decl_some and rec_none and not is_const_ret(ret_origins(b, p), "false"):
                    bad.append(p)
            ctx.check(not bad, f"{short(b.name)}/declared-but-unrecorded", [b.loc()], "declared resources with no recorded state compare equal (a record lacking the output state would allow a skip)")
    ctx.need(n_inner >= 1, "inner comparison fn(Option<&ResourcesState>, Option<&Resources>) -> bool")


def file_state_eq_bodies(ctx):
    """async bodies that compare a recorded file state with the files listed now: they await the lister and `all`"""
    listers = {n for n in ctx.f.bodies if any(l in ctx.f.cg.reach([n], cross_spawn=True) for l in ctx.r.listers())}
    alln = {ctx.r.fn_of(b).name for b in all_fns(ctx)}
    out = []
    for b in ctx.f.user_bodies():
        if b.coroutine and b.ret == "bool" and awaited_local_calls(b, alln) and any(a.callee in listers for a in awaits(b) if a.callee):
            out.append(b)
    return out


def mtime_fns(ctx):
    return [ctx.r.fn_of(b).name for b in ctx.f.user_bodies() if b.coroutine and "Result<std::time::Duration" in b.ret]


def _is_hasher_write(t):
    return bool(re.search(r"Hasher>::write$|Hasher::write$", callee_base(t)))


def hash_fns(ctx):
    return [ctx.r.fn_of(b).name for b in ctx.f.user_bodies() if b.coroutine and any(_is_hasher_write(t) for _, t in b.calls())]


def per_file_blocks(ctx, b):
    """the per-file comparison of the file-state comparison `b`: async blocks / local async fns returning bool, reachable from b without crossing a spawn, that
    await the modification-time function (the closure handed to `map`, or a helper applied to each entry)"""
    f = ctx.f
    mt = set(mtime_fns(ctx))
    skip = {ctx.r.fn_of(x).name for x in all_fns(ctx) + both_fns(ctx)} | {x.name for x in all_fns(ctx) + both_fns(ctx)}
    out = []
    for x in sorted(f.cg.reach([b.name], cross_spawn=False)):
        if x == b.name or x not in f.bodies or x in skip:
            continue
        xb = f.bodies[x]
        if xb.coroutine and xb.ret == "bool" and any(a.callee in mt for a in awaits(f.view(x))):
            out.append(x)
    return out


def _hash_ok_and_equal(pb, hs):
    """predicate on an origin: `hash(..).await[.map_err(log)].is_ok_and(|h| h == saved)` - the hash was computed and equals a captured value"""
    def p(o):
        if o[0] != "call" or not re.search(r"Result::<.*>::is_ok_and(::<.*>)?$", callee_decl(o[3])):
            return False
        t_ = o[3]
        l = operand_local(t_["args"][0]) if t_["args"] else None
        if l is None or not origin_matches(origins(pb, l), is_await_of(lambda c: c in hs)):
            return False
        cbs = closure_bodies_passed(pb, t_)
        def eq_param_captured(o2):
            if o2[0] != "binop" or o2[1] != "Eq":
                return False
            sides = [o2[2], o2[3]]
            par = [any(x[0] == "param" and x[1] == 2 for x in s_) for s_ in sides]
            cap = [any(x[0] == "field" and any(y[0] == "param" and y[1] == 1 for y in x[2]) for x in s_) for s_ in sides]
            return (par[0] and cap[1]) or (par[1] and cap[0])
        return bool(cbs) and all(all(any(eq_param_captured(o2) for o2 in ret_origins(cb, p2)) for p2 in enumerate_paths(cb)) for cb in cbs)
    return p


@rule("C02.FS-EQ", ["C02"], """the file-state comparison returns true only if the number of listed files equals the number of recorded files and every
      listed file is recorded with an equal modification time or an equal content hash""", "K2", floor=3)
def fs_eq(ctx):
    f = ctx.f
    bodies = file_state_eq_bodies(ctx)
    ctx.need(bodies, "file-state comparison (awaits the lister and `all`)")
    alln = {ctx.r.fn_of(b).name for b in all_fns(ctx)}
    mt, hs = set(mtime_fns(ctx)), set(hash_fns(ctx))
    ctx.need(mt and hs, "mtime function (-> Result<Duration>) and hash function (feeds Hasher::write)")
    for b in bodies:
        tps, n = true_paths(b)
        bad_len, bad_all = [], []
        for (p, facts, ro) in tps:
            def len_ne(o):
                return o[0] == "binop" and o[1] == "Ne" and all(origin_matches(s, lambda x: x[0] == "call" and x[1].endswith("::len")) for s in (o[2], o[3]))
            def len_eq(o):
                return o[0] == "binop" and o[1] == "Eq" and all(origin_matches(s, lambda x: x[0] == "call" and x[1].endswith("::len")) for s in (o[2], o[3]))
            if not (has_fact(facts, "bool", False, len_ne) or has_fact(facts, "bool", True, len_eq)):
                bad_len.append(p)
            if not any(o[0] == "await" and o[1] in alln for o in ro):
                bad_all.append(p)
        ctx.check(not bad_len, f"{short(b.name)}/same-cardinality", [b.loc()], "a true-returning path does not compare the number of listed files with the number of recorded files (a deleted file would go unnoticed)",
                  detail=f"{n} paths, {len(tps)} can return true")
        ctx.check(not bad_all, f"{short(b.name)}/all-files", [b.loc()], "a true-returning path does not return the result of `all` over the per-file comparisons")
        # the per-file async block: closure handed to map() feeding `all`
        per_file = per_file_blocks(ctx, b)
        ctx.need(per_file, "per-file comparison block")
        for pfn in per_file:
            pb = f.view(pfn)
            tps2, n2 = true_paths(pb)
            bad = []
            # the file is paired with its record: looked up in the record inside the block (`get` -> Some), or - when the block is a function applied to each
            # *recorded* entry - applied only to entries found in the current listing (`contains` true at its call site)
            paired_at_site = False
            if not pfn.startswith(b.name + "::"):
                fn_name = ctx.r.fn_of(f.bodies[pfn]).name
                def listed(d):
                    return d[0] == "call" and re.search(r"::(contains|contains_key)$", d[1]) is not None
                found_sites = []
                for xn in [b.name] + sorted(x for x in f.cg.reach([b.name], cross_spawn=False) if x.startswith(b.name + "::")):
                    xb = f.view(xn) if xn != b.name else b
                    G = guard_region(xb, listed, True)
                    # ... or the helper is applied to the record found for the file (`Some(&saved) => is_unchanged(&file, saved)`)
                    for e in xb.edges:
                        if e.label and e.label[0] == "variant" and e.label[2] == ("Some",) and origin_matches(edge_origin(xb, e), is_call_of(lambda c: c.endswith("::get"))):
                            G = G | xb.dominated_by_edge(e)
                    found_sites += [(cb in G) for cb, ct in xb.calls() if callee_base(ct) == fn_name]
                paired_at_site = bool(found_sites) and all(found_sites)
            for (p, facts, ro) in tps2:
                some = paired_at_site or has_fact(facts, "variant", ("Some",), is_call_of(lambda c: c.endswith("::get")))
                if not some:
                    # ... or the block is handed a (listed path, recorded path, recorded state) triple and first requires the two paths to be equal
                    def path_cmp(which):
                        return lambda o: o[0] == "call" and re.search(r"PartialEq(<.*>)?>?::" + which + "$", o[1]) is not None and "Path" in o[3]["callee"]["declared"]
                    some = has_fact(facts, "bool", True, path_cmp("eq")) or has_fact(facts, "bool", False, path_cmp("ne"))
                mt_ok = has_fact(facts, "variant", ("Ok",), is_await_of(lambda c: c in mt))
                def dur_eq(o):
                    return o[0] == "call" and o[1].endswith("PartialEq>::eq") and "Duration" in o[3]["callee"]["declared"]
                mtime_equal = has_fact(facts, "bool", True, dur_eq)
                hash_ok = has_fact(facts, "variant", ("Ok",), is_await_of(lambda c: c in hs))
                hash_equal = any(o[0] == "binop" and o[1] == "Eq" and (origin_matches(o[2], is_await_of(lambda c: c in hs)) or origin_matches(o[3], is_await_of(lambda c: c in hs))) for o in ro)
                if not (hash_ok and hash_equal):
                    hoe = _hash_ok_and_equal(pb, hs)
                    hash_ok = hash_equal = any(hoe(o) for o in ro) or has_fact(facts, "bool", True, hoe)
                if not (some and mt_ok and (mtime_equal or (hash_ok and hash_equal))):
                    bad.append(p)
            ctx.check(not bad, f"{short(pfn)}/recorded+unchanged", [pb.loc()],
                      f"{len(bad)} of {len(tps2)} true-returning path(s) accept a file that is not recorded, whose modification time could not be read, or that has neither the recorded time nor the recorded hash: {fmt_path(pb, bad[0]) if bad else ''}",
                      detail=f"{n2} paths, {len(tps2)} can return true")
            # C03.SUFFICIENT-PATHS is evaluated on the same enumeration (see rules below)


@rule("C03.SUFFICIENT-PATHS", ["C03"], """the per-file comparison has a true-returning path that needs only an equal modification time (no hashing) and one that,
      with a different modification time, needs only an equal content hash""", "K3", floor=2)
def sufficient_paths(ctx):
    f = ctx.f
    mt, hs = set(mtime_fns(ctx)), set(hash_fns(ctx))
    for b in file_state_eq_bodies(ctx):
        per_file = per_file_blocks(ctx, b)
        for pfn in per_file:
            pb = f.view(pfn)
            tps2, n2 = true_paths(pb)
            by_time = by_hash = 0
            for (p, facts, ro) in tps2:
                hashed = any(k == "variant" and origin_matches(o, is_await_of(lambda c: c in hs)) for (k, v, o, e) in facts)
                if not hashed:
                    hoe = _hash_ok_and_equal(pb, hs)
                    hashed = any(hoe(o) for o in ro) or has_fact(facts, "bool", True, hoe)
                def dur_eq(o):
                    return o[0] == "call" and o[1].endswith("PartialEq>::eq") and "Duration" in o[3]["callee"]["declared"]
                if has_fact(facts, "bool", True, dur_eq) and not hashed:
                    by_time += 1
                if has_fact(facts, "bool", False, dur_eq) and hashed:
                    by_hash += 1
            ctx.check(by_time >= 1, f"{short(pfn)}/by-mtime-alone", [pb.loc()], "no true-returning path accepts an unchanged file by its modification time alone (every unchanged file would be re-hashed or rejected)")
            ctx.check(by_hash >= 1, f"{short(pfn)}/by-hash-alone", [pb.loc()], "no true-returning path accepts a touched-but-identical file by its content hash")


@rule("C02.HASH-WHOLE-FILE", ["C02"], """the content hash reads the file to the end: the read loop is left only when a read returns 0 bytes or fails, and every
      chunk read is fed to the hasher""", "K10", floor=1)
def hash_whole_file(ctx):
    f = ctx.f
    hs = hash_fns(ctx)
    ctx.need(hs, "hash function")
    for hn in hs:
        b = f.coroutine_of(hn)
        reads = [a for a in awaits(b) if a.callee and re.search(r"ReadExt::read$|Read::read$|AsyncReadExt::read$", a.callee)]
        ctx.need(reads, "awaited read call in the hash function")
        loops = b.natural_loops()
        for a in reads:
            lp = [l for l in loops if a.into_bb in l[1]]
            if not lp:
                ctx.bad(f"{short(hn)}/read-loop", [site(b, a.into_bb)], "the read is not in a loop: only the first chunk is hashed")
                continue
            h, blks, exits = max(lp, key=lambda l: len(l[1]))
            bad = []
            for e in exits:
                l = e.label
                if l and l[0] == "variant" and l[1] and l[1].endswith("ControlFlow") and l[2] == ("Break",):
                    continue  # `?`
                if l and l[0] == "val" and l[1] == 0 and l[2] is not None:
                    o = origins(b, l[2])
                    if origin_matches(o, lambda y: (y[0] == "await" and y[3] is a) or (y[0] == "call" and y[1].endswith("Try>::branch"))):
                        continue  # `match count { 0 => break, .. }`
                if l and l[0] == "bool":
                    o = edge_origin(b, e)
                    def zero(x):
                        return x[0] == "binop" and x[1] == "Eq" and (any(y[0] == "const" and y[1].startswith("0") for y in x[3]) or any(y[0] == "const" and y[1].startswith("0") for y in x[2])) and \
                            (origin_matches(x[2], lambda y: y[0] == "await" and y[3] is a) or origin_matches(x[3], lambda y: y[0] == "await" and y[3] is a) or
                             origin_matches(x[2], lambda y: y[0] == "call" and y[1].endswith("Try>::branch")) or origin_matches(x[3], lambda y: y[0] == "call" and y[1].endswith("Try>::branch")))
                    if l[1] is True and origin_matches(o, zero):
                        continue
                bad.append(e)
            ctx.check(not bad, f"{short(hn)}/read-loop-exits", [site(b, h)], "the read loop can be left before end of file: " + ", ".join(repr(e) for e in bad))
            writes = [bb for bb, t in b.calls() if _is_hasher_write(t) and bb in blks]
            ctx.check(bool(writes), f"{short(hn)}/chunks-hashed", [site(b, w) for w in writes] or [site(b, h)], "the bytes read are not fed to the hasher inside the loop")


def cmd_state_bodies(ctx):
    """per-command async blocks of the command-output state: bodies that await the command runner (reaches Command::output)"""
    f = ctx.f
    r = ctx.r
    svc = [a.name for a in r.actors() if "Service" in r.actor_kinds(a)]
    engine_side = set(f.cg.reach(svc)) | set(svc)
    for v in r.script_runners():
        engine_side |= {v.name} | set(f.cg.reach([v.name])) | {r.fn_of(f.bodies[v.name]).name}
    # (a runner that spawns the command itself and collects its output by hand is a command runner as well)
    runners = {r.fn_of(b).name for (b, bb, t) in r.spawn_raw()
               if t["callee"]["base"].endswith("Command::output") or (t["callee"]["base"].endswith("Command::spawn") and b.name not in engine_side and r.fn_of(b).name not in engine_side)}
    return runners


@rule("C02.CMD-EQ", ["C02"], """the per-command comparison returns true only if the command ran successfully and its output equals the recorded output""", "K2", floor=2)
def cmd_eq(ctx):
    f = ctx.f
    runners = cmd_state_bodies(ctx)
    ctx.need(runners, "command runner (awaits Command::output)")
    # the runner: Ok only under status.success()
    for rn in runners:
        b = f.coroutine_of(rn)
        G, _ = success_region(f, f.view(b))
        b = f.view(b)
        oks = [(bb, st) for (bb, st) in b.aggregates("Result", "Ok") if b.origin(bb) == b.name]
        ctx.need(oks, "Ok construction in the command runner")
        for (bb, st) in oks:
            ctx.check(bb in G, f"{short(rn)}/ok-only-on-success", [site(b, bb)], "the command runner reports Ok for a command that did not exit successfully")
    n = 0
    for b in f.user_bodies():
        if not (b.coroutine and b.ret == "bool"):
            continue
        aw = [a for a in awaits(b) if a.callee in runners]
        if not aw:
            continue
        n += 1
        tps, np_ = true_paths(b)
        bad = []
        for (p, facts, ro) in tps:
            ran = has_fact(facts, "variant", ("Ok",), is_await_of(lambda c: c in runners))
            def eq_saved(o):
                if o[0] != "call" or not o[1].endswith("PartialEq>::eq"):
                    return False
                at = set()
                for a in o[3]["args"]:
                    at |= b.prov.operand_atoms(a)
                return any(c.endswith("::get") for c in atom_callres(at)) and ("variant", "Ok") in at
            compared = any(eq_saved(o) for o in ro) or has_fact(facts, "bool", True, eq_saved)
            if not compared:
                # `recorded.map_or(false, |r| *r == stdout)` / `is_some_and(|r| ..)`: absent means changed, present means compared
                def via_option(o):
                    if o[0] != "call" or not re.search(r"Option::<.*>::(map_or|is_some_and)(::<.*>)?$", callee_decl(o[3])):
                        return False
                    t_ = o[3]
                    if not any(c.endswith("::get") for c in atom_callres(b.prov.operand_atoms(t_["args"][0]))):
                        return False
                    if callee_decl(t_).split("::<")[0].endswith("map_or") and not (len(t_["args"]) > 1 and const_val(t_["args"][1]) == "false"):
                        return False
                    cbs = closure_bodies_passed(b, t_)
                    return bool(cbs) and all(any(o2[0] == "call" and re.search(r"PartialEq(<.*>)?>?::eq$", o2[1]) for p2 in enumerate_paths(cb) for o2 in ret_origins(cb, p2)) for cb in cbs)
                compared = any(via_option(o) for o in ro) or has_fact(facts, "bool", True, via_option)
            if not (ran and compared):
                bad.append(p)
        ctx.check(not bad, f"{short(b.name)}/ran+equal", [b.loc()], f"{len(bad)} true-returning path(s) accept a command that failed or whose output was not compared with the record: {fmt_path(b, bad[0]) if bad else ''}",
                  detail=f"{np_} paths, {len(tps)} can return true")
    ctx.need(n >= 1, "per-command comparison block")


@rule("C02.SAME-LISTING", ["C02", "C15"], """the recording and the comparison of the file state obtain the file set from the same lister, applied to their own
      `resources` parameter""", "K8", floor=2)
def same_listing(ctx):
    f = ctx.f
    listers = ctx.r.listers()
    ctx.need(listers, "lister (calls WalkDir::new)")
    users = []
    for b in f.user_bodies():
        if not b.coroutine:
            continue
        fn = ctx.r.fn_of(b)
        if "fs::ResourcesState" not in fn.name and not re.search(r"HashMap<std::path::PathBuf, \(std::time::Duration, u64\)>", " ".join(l["ty"] for l in b.locals)):
            continue
        for a in awaits(b):
            if a.callee in f.bodies and set(listers) & f.cg.reach([a.callee]):
                at = set()
                for x in a.producer[1]["args"]:
                    at |= b.prov.operand_atoms(x, interproc=False)
                users.append((b, a, at))
    ctx.need(len(users) >= 2, f"file-state bodies calling the lister (found {len(users)})")
    entry = {a.callee for (b, a, at) in users}
    for (b, a, at) in users:
        from_param = any(x[0] == "field" and x[1].startswith("{env of") and "resources" in x[2] for x in at)
        ctx.check(from_param and len(entry) == 1, f"{short(b.name)}", [site(b, a.producer[0])],
                  "the file set is listed from something other than the `resources` parameter" if not from_param else f"recording and comparison use different listing functions: {sorted(entry)}")


@rule("C02.COMPARE-WHAT-YOU-RECORD", ["C02", "C13", "C18"], """the incremental runner compares and records the same declared resources, and the build actor hands it its own
      target's metadata, input and output""", "K5", floor=2)
def compare_what_you_record(ctx):
    R = runner(ctx)
    f = ctx.f
    cps = {x[0] for x in comparison_predicates(ctx, R)}

    def upvars(t):
        s = set()
        for a in t["args"]:
            s |= {x[2] for x in R.prov.operand_atoms(a, interproc=False) if x[0] == "field" and x[1].startswith("{env of")}
        return s
    cmp_args = set()
    for (cbb, t, a) in awaited_local_calls(R, cps):
        cmp_args |= upvars(t)
    snap_args = set()
    for a in awaits(R):
        if a.callee in f.bodies and a.callee not in cps and a.producer and "State" in (f.bodies[a.callee].ret + f.coroutine_of(a.callee).ret if f.coroutine_of(a.callee) else ""):
            snap_args |= upvars(a.producer[1])
    need = {x for x in cmp_args if "input" in x or "output" in x}
    ctx.check(need and need <= snap_args, f"{short(R.name)}/same-resources", [R.loc()],
              f"the resources compared ({sorted(need)}) are not the resources recorded ({sorted(snap_args)})")
    # call site in the build actor
    rfn = ctx.r.fn_of(R).name
    n = 0
    for a in ctx.r.actors():
        for bb, t in calls_in(a, None, lambda x: x == rfn):
            n += 1
            ats = _call_args_atoms(a, t)
            ok = len(ats) >= 3 and atom_has_field(ats[0], "metadata") and atom_has_field(ats[1], "input") and atom_has_field(ats[2], "output") \
                and all(atom_has_field(x, "target") for x in ats[:3])
            ctx.check(ok, f"{ctx.r.actor_label(a)}/call", [site(a, bb)], "the build actor does not pass its own target's metadata, input and output to the incremental runner",
                      props=["C02", "C13", "C18"])
    ctx.need(n >= 1, "call of the incremental runner in an actor")


# ------------------------------------------------------------------ C03
@rule("C03.SAVE-ON-SUCCESS", ["C03"], """after a completed build whose state snapshot is Ok(Some), the incremental runner awaits the state save before
      returning Completed""", "K1", floor=1)
def save_on_success(ctx):
    R = runner(ctx)
    saves, _ = state_save_fns(ctx)
    Rc = completed_region(ctx, R)
    ctx.need(Rc, "Completed arm of the build report in the incremental runner")
    aw = awaited_local_calls(R, set(saves), Rc)
    ctx.need(aw or True, "")
    if not aw:
        ctx.bad(f"{short(R.name)}/save", [R.loc(min(Rc))], "a completed build never saves its state: the target would be rebuilt on every run")
        return
    for (cbb, t, a) in aw:
        # the save must be reached on every path on which the snapshot it records is Ok(Some): the snapshot is the awaited value the record derives from
        rec_at = R.prov.operand_atoms(_record_arg(R, t)) if _record_arg(R, t) is not None else set()
        snaps = [x for x in awaits(R) if x.callee in atom_callres(rec_at) and x.callee in ctx.f.bodies and x.producer and x.producer[0] in Rc]
        ok = False
        for sn in snaps:
            es = edges_on_await(R, sn, "Option", "Some")
            co_ = ctx.f.coroutine_of(sn.callee)
            if not es and co_ is not None and "Option<" not in co_.ret:
                # a snapshot function that has nothing optional left (`with_current_output(input, output) -> Result<TargetEnvState>`, the "no input declared"
                # case having been sorted out before): it is computed on the success side of its Result
                es = edges_on_await(R, sn, "Result", "Ok") + [ce for (tb, sb, ce, be) in try_edges(R) if ce is not None and R.term(tb)["args"] and
                      origin_matches(origins(R, operand_local(R.term(tb)["args"][0])), lambda x: x[0] == "await" and x[3] is sn)]
            for e in es:
                Rs = R.dominated_by_edge(e)
                if cbb in Rs and _must_pass(R, Rs, cbb):
                    ok = True
        ctx.check(ok, f"{short(R.name)}/save", [site(R, cbb)], "the state save is skipped on some path of a completed build whose snapshot was computed")


def _dominated_entry_must_pass(body, region, bb):
    return _must_pass(body, region, bb)


@rule("C03.NONE-ONLY-IF-NO-INPUT", ["C03"], """a state snapshot is `None` (nothing to record, always executed) only when the declared input is empty""", "K1", floor=1)
def none_only_if_no_input(ctx):
    f = ctx.f
    n = 0
    for b in f.user_bodies():
        if not b.coroutine or "Result<std::option::Option<engine::incremental" not in b.ret and not re.search(r"Result<std::option::Option<[\w:]*(ResourcesState|TargetEnvState)>", b.ret):
            continue
        for (bb, st) in b.aggregates("Option", "None"):
            if "State" not in st["lhs"]["ty"]:
                continue
            n += 1
            def no_resources(d, f=f):
                # the emptiness test of a resource set: the local fn (&Resources) -> bool
                if d[0] != "call":
                    return False
                cb_ = f.bodies.get(d[1])
                return d[1].endswith("Resources::is_empty") or (cb_ is not None and cb_.ret == "bool" and cb_.argc == 1 and re.search(r"^&[\w:]*Resources$", cb_.locals[1]["ty"]) is not None)
            G = guard_region(b, no_resources, True)
            # or: propagated None from a callee that satisfies the rule (match input_state? { None => Ok(None) })
            Gn = b.region(lambda l, e: l[0] == "variant" and l[2] == ("None",) and l[1].endswith("Option"))
            ctx.check(bb in G or bb in Gn, f"{short(b.name)}/None", [site(b, bb)], "a snapshot of `None` is produced although the target declares inputs: the target would never be skipped")
    ctx.need(n >= 1, "construction of a None snapshot")


@rule("C03.KEY-INJECTIVE", ["C03", "C13"], """the key under which a command's output is recorded and looked up derives from both the command text and the
      directory it runs in, and writer and reader use the same key""", "K5", floor=2)
def key_injective(ctx):
    f = ctx.f
    runners = cmd_state_bodies(ctx)
    writers, readers = [], []
    scope_fns = {ctx.r.outer_fn(b).name for b in f.user_bodies() if any(a.callee in runners for a in awaits(b))}
    # ... and the functions given the list of command resources (the recording may obtain the outputs through a helper)
    scope_fns |= {ctx.r.outer_fn(b).name for b in f.user_bodies() if any(re.search(r"&\[[\w:]*CmdResource\]", l["ty"]) for l in b.locals[1:b.argc + 1])}
    for b in f.user_bodies():
        if ctx.r.outer_fn(b).name not in scope_fns:
            continue
        for bb, t in b.calls():
            # any keyed access of a map whose key is made from a command resource
            if re.search(r"(HashMap|BTreeMap)<.*>(::<.*>)?::(get|get_mut|contains_key|remove|entry|insert|get_key_value)(::<.*>)?$|(HashMap|BTreeMap)::<.*>::(get|get_mut|contains_key|remove|entry|insert|get_key_value)(::<.*>)?$", callee_decl(t)) \
                    or (re.search(r"ops::Index<.*>>::index$", callee_decl(t)) and re.search(r"(HashMap|BTreeMap)<", callee_decl(t))):
                if len(t["args"]) > 1:
                    fl = atom_fields(b.prov.operand_atoms(t["args"][1]), "CmdResource")
                    if fl:
                        readers.append((b, bb, fl))
        for blk in b.normal_blocks():
            for st in blk["stmts"]:
                rv = st["rv"]
                if rv["k"] == "agg" and rv.get("tuple") and len(rv["ops"]) == 2:
                    fl = atom_fields(b.prov.operand_atoms(rv["ops"][0]), "CmdResource")
                    # a (key, value) pair: the first component is made from a command resource, the second is not the very same thing
                    if fl and rv["ops"][0] != rv["ops"][1] and (st["lhs"]["local"] == 0 or 0 in b.prov.flows_forward(st["lhs"]["local"])):
                        writers.append((b, blk["id"], fl))   # (only pairs the body yields: the arguments of a log line are a tuple too)
    if not readers and not writers:
        ctx.ok("no-keyed-lookup", [], "the recorded command outputs are not a keyed map: no collision possible")
        return
    ctx.need(readers and writers, f"writer (tuple key) and reader (HashMap::get) of the command-output state; found {len(writers)}/{len(readers)}")
    for (b, bb, fl) in writers:
        ctx.check({"cmd", "dir"} <= fl, f"writer/{short(ctx.r.outer_fn(b).name)}", [site(b, bb)], f"the recorded key derives from {sorted(fl)} only: the same command text in two project directories collides")
    for (b, bb, fl) in readers:
        ctx.check({"cmd", "dir"} <= fl, f"reader/{short(ctx.r.outer_fn(b).name)}", [site(b, bb)], f"the lookup key derives from {sorted(fl)} only: the same command text in two project directories collides")


@rule("C03.DELETE-STATE-SITES", ["C03", "C12"], """the recorded state of a target is deleted only: by the incremental runner before the script, by the state reader when
      the file does not decode, and by `main` under --clean""", "K4", floor=2)
def delete_state_sites(ctx):
    r = ctx.r
    f = ctx.f
    dels, _ = state_delete_fns(ctx)
    reads, _ = state_read_fns(ctx)
    R = runner(ctx)
    main_async = r.main_async()
    reader_views = [r.V(f.bodies[n]) for n in reads] + [r.V(f.coroutine_of(n)) for n in reads if f.coroutine_of(n)]
    for dn in dels:
        for (cb, bb, ct) in r.callers_of(f.bodies[dn], prefer=[R] + reader_views):
            outer = r.outer_fn(f.bodies[cb.origin(bb)] if cb.origin(bb) in f.bodies else cb).name
            lab = short(cb.origin(bb))
            if cb.name == R.name:
                ctx.ok(lab, [site(cb, bb)], "incremental runner (before the script, see C05.DELETE-BEFORE-SCRIPT)")
            elif r.is_role(reader_views, cb) or outer in reads:
                Rerr = variant_region(cb, "Result", "Err")
                ctx.check(bb in Rerr, lab, [site(cb, bb)], "the state reader deletes the record outside the decode-error branch")
            elif cb.name in (main_async.name, r.main_body().name):
                def is_clean(d):
                    return d[0] == "call" and d[1].endswith("ArgMatches::is_present") and len(d[2]) > 1 and any(a[0] in ("static", "constdef") and a[1].endswith("CLEAN") for a in d[2][1])
                G = guard_region(cb, is_clean, True)
                if not G:
                    # the flag was bound to a local before the async block: C12.SCOPE decides the clean scope; here only the caller matters
                    G = {bb}
                ctx.check(bb in G, lab, [site(cb, bb)], "`main` deletes recorded state outside the --clean branch")
            else:
                ctx.bad(lab, [site(cb, bb)], "unexpected caller of the state-delete function: recorded state may disappear and force rebuilds (or hide another target's record)")


# ------------------------------------------------------------------ C05
@rule("C05.DELETE-BEFORE-SCRIPT", ["C05"], """in the incremental runner every path from entry to the first poll of the script future has passed an awaited, `?`-checked
      delete of the old record""", "K1", floor=1)
def delete_before_script(ctx):
    R = runner(ctx)
    sa = script_await(ctx, R)
    dels, _ = state_delete_fns(ctx)
    aw = awaited_local_calls(R, set(dels))
    good = []
    for (cbb, t, a) in aw:
        # the Continue edge of the `?` applied to the awaited result dominates the script await
        for (tb, sb, ce, be) in try_edges(R):
            o = origins(R, operand_local(R.term(tb)["args"][0])) if R.term(tb)["args"] else []
            if origin_matches(o, lambda x: is_result_of(x, a)) and ce is not None and sa.into_bb in R.dominated_by_edge(ce):
                good.append(cbb)
    ctx.check(bool(good), f"{short(R.name)}/delete-then-script", [site(R, g) for g in good] or [site(R, sa.into_bb)],
              "the script can start while the old record is still in place (no `?`-checked awaited delete dominates the script): a crash during the script would leave the target recorded as done")


@rule("C05.DELETE-ERRORS-PROPAGATE", ["C05"], """inside the state delete function the outcome of the file removal reaches the function's result: a failed removal is an error of the
      delete (which the runner `?`-checks before starting the script), not a dropped value""", "K5", floor=1)
def delete_errors_propagate(ctx):
    dels, sites = state_delete_fns(ctx)
    R = runner(ctx)
    sa = script_await(ctx, R)
    used = {callee_base(t) for (cbb, t, a) in awaited_local_calls(R, set(dels)) if R.dominates(cbb, sa.into_bb)}   # the delete the runner performs before the script
    ctx.need(used, "state delete awaited by the incremental runner")
    # the record is the file the reader opens: with several state path functions (a scratch file next to the record) only removals of that one count
    spf = {x.name for x in ctx.r.state_path_fns()}
    record_fns = set()
    if len(spf) > 1:
        try:
            readers, _ = state_read_fns(ctx)
        except AnchorLost:
            readers = []
        for x in ctx.f.user_bodies():
            if ctx.r.outer_fn(x).name in readers or ctx.r.fn_of(ctx.r.outer_fn(x)).name in readers:
                record_fns |= {callee_base(ct) for _, ct in x.calls()} & spf
    n = 0
    for (b, bb, t) in sites:
        raw = ctx.f.bodies[b.origin(bb)]
        if ctx.r.fn_of(ctx.r.outer_fn(raw)).name not in used:
            continue   # another removal of the state file (e.g. a best-effort clean-up of a partial write in the saver) is not the discard-before-build
        if record_fns and t["args"] and not (atom_callres(b.prov.operand_atoms(t["args"][0])) & record_fns):
            continue   # the removal of a scratch file that is never read back
        rbb = b.blocks[bb].get("orig_id", bb) if b.origin(bb) != b.name else bb
        rt = raw.term(rbb)
        if rt["k"] != "call" or rt.get("dest") is None:
            continue
        n += 1
        ctx.check(rbb in raw.reachable_blocks(), f"{short(ctx.r.outer_fn(raw).name)}/removal-reachable", [site(raw, rbb)],
                  "the removal of the state file is dead code: the old record is never discarded")
        fl = raw.prov.flows_forward(rt["dest"]["local"])
        ctx.check(0 in fl, f"{short(ctx.r.outer_fn(raw).name)}/removal-result-returned", [site(raw, rbb)],
                  "the result of removing the state file never reaches the delete function's result: when the removal fails the script still runs with the old record in place")
    ctx.need(n >= 1, "removal of the state file")


@rule("C05.SAVE-ONLY-COMPLETED", ["C05"], """the state is saved only in the Completed arm of the build report, and an Err of the script future is returned as Err""", "K1", floor=2)
def save_only_completed(ctx):
    R = runner(ctx)
    f = ctx.f
    saves, _ = state_save_fns(ctx)
    Rc = completed_region(ctx, R)
    n = 0
    for sn in saves:
        for (cb, bb, ct) in ctx.r.callers_of(f.bodies[sn], prefer=[R]):
            n += 1
            ctx.check(cb.name == R.name and bb in Rc, f"save/{short(cb.origin(bb))}", [site(cb, bb)], "the state is saved outside the Completed arm of the build report (a cancelled or failed build would be remembered as done)")
    ctx.need(n >= 1, "call site of the state save")
    sa = script_await(ctx, R)
    ok = False
    for (tb, sb, ce, be) in try_edges(R):
        o = origins(R, operand_local(R.term(tb)["args"][0])) if R.term(tb)["args"] else []
        if origin_matches(o, lambda x: x[0] == "await" and x[3] is sa) and be is not None:
            # Break edge leads to from_residual and return
            reach = R.reach_from(be.dst) | {be.dst}
            if any(callee_base(t).endswith("FromResidual>::from_residual") or "from_residual" in callee_base(t) for bb, t in R.calls() if bb in reach) and not (reach & Rc):
                ok = True
    ctx.check(ok, f"{short(R.name)}/script-err-is-err", [site(R, sa.into_bb)], "an error of the script future is not propagated as Err by the incremental runner")
    # Completed result only from the Completed arm, Cancelled only from the Cancelled arm
    for (bb, st) in R.aggregates("IncrementalRunResult", "Completed"):
        ctx.check(bb in Rc, f"{short(R.name)}/Completed", [site(R, bb)], "IncrementalRunResult::Completed is produced outside the Completed arm of the build report")


@rule("C05.COMPLETED-ONLY-SUCCESS", ["C05", "C07", "C02", "C04"], """BuildTerminationReport::Completed is constructed only after the exit status was obtained and `success()` is true; a
      non-zero status returns Err; Cancelled only in the cancellation arm""", "K1", floor=3)
def completed_only_success(ctx):
    srs = ctx.r.script_runners()
    ctx.need(srs, "script runner (constructs BuildTerminationReport::Completed)")
    for b in srs:
        G, _ = success_region(ctx.f, b)
        for (bb, st) in b.aggregates("BuildTerminationReport", "Completed"):
            ctx.check(bb in G, f"{short(b.name)}/Completed", [site(b, bb)], "a build is reported Completed without a true `ExitStatus::success()`", props=["C05", "C07", "C02"])
        # a status that is not a success makes the function that tests it return Err: judged in the body the test is written in (the runner itself or a
        # `check(status)?` helper), on its own code
        testers = [x for x in ctx.f.user_bodies() if exit_success_edges(ctx.f.view(x))[0] and (x.name == ctx.f.bodies[b.name].name or ctx.r.fn_of(x).name in ctx.f.cg.reach([ctx.r.fn_of(b).name], cross_spawn=False))
                   and ctx.f.view(x).origin(exit_success_edges(ctx.f.view(x))[0][0].src) == x.name]
        okf = bool(testers)
        where = []
        # a tester that only *classifies* the status into a local enum is judged where that enum is matched: in the runner
        classifiers = [x for x in testers if x.ret in ctx.f.adts and ctx.f.adts[x.ret]["enum"]]
        if classifiers:
            testers = [x for x in testers if x not in classifiers]
            if ctx.f.bodies[b.name] not in testers:
                testers.append(ctx.f.bodies[b.name])
        for x in testers:
            xv = ctx.f.view(x)
            _, F = success_region(ctx.f, xv)
            ret_err = [bb for (bb, st) in xv.aggregates("Result", "Err") if bb in F and xv.origin(bb) == x.name]
            ok_in_f = [bb for (bb, st) in xv.aggregates("Result", "Ok") if bb in F and xv.origin(bb) == x.name] if x.name != ctx.f.bodies[b.name].name else \
                      [bb for (bb, st) in xv.aggregates("BuildTerminationReport", "Completed") if bb in F]
            where += [site(xv, y) for y in ret_err]
            if not (F and ret_err and not ok_in_f):
                okf = False
        ctx.check(okf, f"{short(b.name)}/nonzero-is-Err", where or [b.loc()], "a non-zero exit status does not make the script runner return Err", props=["C05", "C07", "C02"])
        # Cancelled only in the cancellation arm
        arms = arm_by_payload(b, lambda p: "BuildCancellationMessage" in p)
        ctx.need(arms, "cancellation arm in the script runner")
        for (bb, st) in b.aggregates("BuildTerminationReport", "Cancelled"):
            ctx.check(any(bb in a.region for a in arms), f"{short(b.name)}/Cancelled", [site(b, bb)],
                      "Cancelled is reported outside the cancellation arm: the actor takes it for the end of a build it was told to stop and tells nobody - a one-shot run never ends",
                      props=["C05", "C07", "C02", "C04"])
        # the exit status itself must be `?`-checked (Err of status() is an Err of the runner)
        waits = [a for a in awaits(b) if a.callee and is_process_wait(a.callee)]
        sel_waits = [bb for bb, t in b.calls() if is_process_wait(t["callee"]["base"])]
        ctx.need(sel_waits, "process wait in the script runner")


@rule("C05.CORRUPT-IS-ABSENT", ["C05"], """the state reader yields a record only from a successful decode; a decode error deletes the file and yields None; nothing
      on that path unwraps""", "K1", floor=2)
def corrupt_is_absent(ctx):
    r = ctx.r
    f = ctx.f
    reads, rsites = state_read_fns(ctx)
    dels, _ = state_delete_fns(ctx)
    for rn in reads:
        b = f.view(f.coroutine_of(rn) or f.bodies[rn])
        # (a) returned Option derives from Result::ok(decode result) or from the Ok edge
        tps = enumerate_paths(b)
        bad = []
        some_paths = 0
        for p in tps:
            ro = ret_origins(b, p)
            if any(o[0] == "agg" and o[2] == "None" for o in ro) or is_const_ret(ro, "None"):
                continue
            some_paths += 1
            via_ok = any(o[0] == "call" and o[1].endswith("Result::<T, E>::ok") for o in ro) or \
                any(k == "variant" and v == ("Ok",) for (k, v, o, e) in path_facts(b, p))
            if not via_ok:
                bad.append(p)
        ctx.check(some_paths >= 1 and not bad, f"{short(rn)}/some-only-from-ok", [b.loc()], "the state reader can yield a record that does not come from a successful decode")
        # (b) decode-error branch calls the state delete
        Rerr = variant_region(b, "Result", "Err")
        dcalls = awaited_local_calls(b, set(dels), Rerr)
        ctx.check(bool(dcalls), f"{short(rn)}/err-deletes", [site(b, d[0]) for d in dcalls] or [b.loc()], "a file that does not decode is not deleted by the reader")


BINCODE_UNBOUNDED = re.compile(r"^bincode::(deserialize_from|deserialize_from_custom)$")


def decode_sites(f):
    """[(body, bb, term, bounded?)] of every bincode decode from a reader"""
    out = []
    for b in f.user_bodies():
        for bb, t in b.calls():
            base = t["callee"]["base"]
            decl = callee_decl(t)
            if BINCODE_UNBOUNDED.match(base):
                out.append((b, bb, t, False, "bincode::deserialize_from has no size limit"))
            elif re.search(r"bincode::Options>::deserialize_from(_custom|_seed|_custom_seed)?$|bincode::config::Options::deserialize_from", base) or (base.endswith("Options::deserialize_from") and "bincode" in base):
                bounded = "bincode::config::Bounded" in decl or "WithOtherLimit<" in decl and "Bounded" in decl
                out.append((b, bb, t, bounded, "Options::deserialize_from with an Infinite limit" if not bounded else "bounded"))
            elif re.search(r"bincode::(Deserializer|de::Deserializer)", base) and "with_reader" in base:
                out.append((b, bb, t, "Bounded" in decl, "custom Deserializer"))
    return out


@rule("C05.BOUNDED-DECODE", ["C05"], """the state file is decoded with a size limit (bincode Options carrying a Bounded limit); the unbounded reader-based entry
      points are not used""", "K4", floor=1)
def bounded_decode(ctx):
    sites = decode_sites(ctx.f)
    # slice-based decodes are accepted (a slice reader refuses a length beyond what is left)
    slice_sites = [(b, bb) for b in ctx.f.user_bodies() for bb, t in b.calls() if re.match(r"^bincode::deserialize$", t["callee"]["base"])]
    ctx.need(sites or slice_sites, "bincode decode site of the state file")
    for (b, bb, t, bounded, why) in sites:
        ctx.check(bounded, f"{short(ctx.r.outer_fn(b).name)}", [site(b, bb)], f"unbounded decode of the state file ({why}): a corrupted length prefix drives the allocation")
    for (b, bb) in slice_sites:
        ctx.ok(f"{short(ctx.r.outer_fn(b).name)}/slice", [site(b, bb)], "slice reader")


def panic_sites(f, body, table_mode=False):
    """panic-capable sites written in a body: unwrap/expect/index/explicit panic/assert. [(bb, kind, detail, from_external_macro)]"""
    out = []
    for blk in body.normal_blocks():
        t = blk["term"]
        if t["k"] == "call" and t["callee"]:
            base = t["callee"]["base"]
            decl = t["callee"]["declared"]
            kind = None
            if re.search(r"^std::(option::Option|result::Result)::<.*>::(unwrap|expect|unwrap_err|expect_err)$", decl):
                kind = decl.split("::")[-1]
            elif re.search(r"(core|std)::panicking::|std::rt::begin_panic|core::panicking::panic", base) or base in ("std::process::abort",):
                kind = "panic"
            elif re.search(r"ops::Index(Mut)?<.*>>::index(_mut)?$", decl) or base.endswith("::index") and "Index" in base:
                kind = "index"
            elif base.endswith("slice::<impl [T]>::copy_from_slice") or base.endswith("::split_at"):
                kind = "slice-op"
            if kind:
                out.append((blk["id"], kind, decl[:120], bool(t.get("exp"))))
        elif t["k"] == "assert":
            if _guarded_subtraction(body, blk["id"], t["msg"]):
                continue
            out.append((blk["id"], "assert", t["msg"][:60], False))
    return out


def _guarded_subtraction(body, bb, msg):
    """the overflow check of `a - K` that sits under `if a > K` (or `a >= K`): cannot fire"""
    m = re.match(r"Overflow\(Sub, [^,]+, (?:const )?([\w:]+)", msg or "")
    if not m:
        return False
    k = m.group(1)
    kv = body.facts.const_value(k) if "::" in k else None    # a named constant is compared by its value (its uses are resolved to the literal at load)
    for e in body.edges:
        l = e.label
        if not (l and l[0] == "bool" and l[2] is not None and bb in body.dominated_by_edge(e)):
            continue
        for d in bool_atom_desc(body, l[2]):
            if d[0] != "binop":
                continue
            def is_k(side):
                return any(isinstance(y, tuple) and y and y[0] == "const" and (str(y[1]).startswith(k) or k.startswith(str(y[1])[:len(k)]) or str(y[1]).split("::")[-1].startswith(k.split("::")[-1]) or (kv is not None and str(y[1]) == kv)) for y in side)
            if (d[1] in ("Gt", "Ge") and is_k(d[3]) and l[1] is True) or (d[1] in ("Lt", "Le") and is_k(d[2]) and l[1] is True) or \
               (d[1] in ("Le", "Lt") and is_k(d[3]) and l[1] is False) or (d[1] in ("Ge", "Gt") and is_k(d[2]) and l[1] is False):
                return True
    return False


@rule("C05.NO-PANIC", ["C05"], """no panic-capable site (unwrap/expect/index/assert/panic) in the functions that read, delete and save the recorded state""", "K9", floor=0)
def no_panic_state(ctx):
    f = ctx.f
    roots = set()
    for fns in (state_read_fns(ctx)[0], state_delete_fns(ctx)[0], state_save_fns(ctx)[0]):
        roots |= set(fns)
    scope = {x for x in f.cg.reach(roots) if x in f.bodies and not f.is_derived(f.bodies[x])}
    ctx.need(len(scope) >= 8, f"bodies of the state read/delete/save functions (found {len(scope)})")
    n = 0
    for x in sorted(scope):
        b = f.bodies[x]
        for (bb, kind, detail, ext) in panic_sites(f, b):
            if ext and kind == "panic":
                continue  # panic inside an external macro's expansion (e.g. select!'s exhausted-futures guard) is not on this path
            n += 1
            ctx.bad(f"{short(x)}/{kind}", [site(b, bb)], f"panic-capable `{kind}` on the state path ({detail}): a bad state file or fs error must never panic")
    if n == 0:
        ctx.ok("state-path", [f"{len(scope)} bodies examined"], "no panic-capable site")


# ------------------------------------------------------------------ C06.SNAPSHOT-ORDER
@rule("C06.SNAPSHOT-ORDER", ["C06"], """the input state that gets recorded is computed before the script future is first polled (or the save is guarded by the
      equality of a pre-script and a post-script input state); the output state after the script completed""", "K5", floor=1)
def snapshot_order(ctx):
    R = runner(ctx)
    f = ctx.f
    sa = script_await(ctx, R)
    after = R.reach_from(sa.into_bb)
    saves, _ = state_save_fns(ctx)
    sv = awaited_local_calls(R, set(saves))
    ctx.need(sv, "awaited state save in the incremental runner")
    # snapshot computations: awaited local calls whose args derive from the target_input parameter and whose result flows into the saved record
    def input_snapshots():
        out = []
        for a in list(awaits(R)) + list(joined_awaits(R)):
            if not a.producer or a.callee not in f.bodies:
                continue
            t = a.producer[1]
            ups = set()
            for x in t["args"]:
                l = operand_local(x)
                if l is None:
                    continue
                for o in origins(R, l):
                    # directly the runner's own parameter (an upvar of the async body), not something computed from it
                    if o[0] == "field" and len(o[1]) == 1 and any(y[0] == "param" for y in o[2]):
                        ups.add(o[1][0])
            co = f.coroutine_of(a.callee)
            if any("input" in u for u in ups) and co is not None and "State" in co.ret:
                out.append((a, a.producer[0]))
        # a helper that is *given* an earlier observation (and hands it on, possibly after looking at the inputs again) is not itself an observation: its own
        # awaits are in view here (it is spliced in) and are judged one by one
        names_ = {x[0].callee for x in out}
        def wraps(aw_):
            t_ = aw_.producer[1]
            if not (t_.get("inlined") or t_.get("inlined_async")):
                return False
            return any((atom_callres(R.prov.operand_atoms(x_, interproc=False)) & (names_ - {aw_.callee})) for x_ in t_["args"])
        out = [x for x in out if not wraps(x[0])]
        return out
    snaps = input_snapshots()
    ctx.need(snaps, "computation of the input state from the target_input parameter")
    for (cbb, t, a) in sv:
        rec_at = R.prov.operand_atoms(_record_arg(R, t)) if _record_arg(R, t) is not None else set()
        feeding = [(sa2, bb) for (sa2, bb) in snaps if sa2.callee in atom_callres(rec_at)]
        ctx.need(feeding, "the saved record derives from an input-state computation")
        pre = [x for x in feeding if x[1] not in after]
        post = [x for x in feeding if x[1] in after]
        # a post-script observation that is only *compared* with the pre-script one (to warn that the inputs moved) does not feed the record: its value
        # must actually flow into what is saved
        rec_l = operand_local(_record_arg(R, t)) if _record_arg(R, t) is not None else None
        def flows_into_record(aw_):
            if aw_.poll_call_bb is None or rec_l is None or R.term(aw_.poll_call_bb).get("dest") is None:
                return True
            fl_ = R.prov.flows_forward(R.term(aw_.poll_call_bb)["dest"]["local"])
            # (through the comparison the value only reaches a bool)
            return rec_l in fl_ and not all(R.locals[l_]["ty"] == "bool" for l_ in fl_ if l_ == rec_l)
        if pre:
            post = [x for x in post if flows_into_record(x[0])]
        if pre and not post:
            ctx.ok(f"{short(R.name)}/input", [site(R, x[1]) for x in pre], "input state taken before the script")
        elif pre and post:
            # accepted second idiom: save guarded by equality of pre and post input states
            G = guard_region(R, lambda d: d[0] == "call" and d[1].endswith("PartialEq>::eq"), True)
            ctx.check(cbb in G, f"{short(R.name)}/input", [site(R, x[1]) for x in post], "the recorded input state is recomputed after the script without guarding the save by an equality with the pre-script state")
        else:
            ctx.bad(f"{short(R.name)}/input", [site(R, x[1]) for x in post], "the recorded input state is computed after the script ran: a change made during the build is recorded as built and the re-run is skipped")


@rule("C03.CARDINALITY-OVER-SETS", ["C03"], """the cardinality test of the file-state comparison compares *distinct* listed files with distinct recorded files: both `len()` operands are
      set/map typed (a file covered by two overlapping resources is counted once on both sides, otherwise the target is never skipped)""", "K5", floor=1)
def cardinality_over_sets(ctx):
    for b in file_state_eq_bodies(ctx):
        b = ctx.f.view(b)   # with the lister spliced in: where the listed collection comes from is visible
        lens = [(bb, t) for bb, t in b.calls() if callee_base(t).endswith("::len")]
        if not lens:
            ctx.ok(f"{short(b.name)}/no-cardinality-test", [b.loc()], "no cardinality comparison at all (its absence is C02.FS-EQ's business, it cannot cause spurious rebuilds)")
            continue
        cmp_lens = []
        for blk in b.normal_blocks():
            for st in blk["stmts"]:
                rv = st["rv"]
                if rv["k"] == "binop" and rv["op"] in ("Ne", "Eq"):
                    for o in origins(b, st["lhs"]["local"]):
                        if o[0] == "binop":
                            for side in (o[2], o[3]):
                                for y in side:
                                    if y[0] == "call" and y[1].endswith("::len"):
                                        cmp_lens.append(y[3])
        if len(cmp_lens) < 2:
            ctx.ok(f"{short(b.name)}/no-cardinality-test", [b.loc()], "no cardinality comparison between two collections")
            continue
        SETTY = r"^(&(mut )?)*std::collections::(HashSet|HashMap|BTreeSet|BTreeMap)<"   # the collection itself, not an iterator/adaptor over sets
        def dedup(l, depth=0):
            """the collection in local l holds distinct elements: it is a set/map, or it was collected (element-preservingly) from one"""
            if l is None or depth > 12:
                return False
            if re.search(SETTY, b.locals[l]["ty"]):
                return True
            # a vector that was sorted and then `dedup`ed holds distinct elements too
            srcs = set(b.prov.source_locals(l, interproc=False))
            def on_src(t):
                r0 = t["args"][0] if t["args"] else None
                if not r0 or r0["k"] not in ("copy", "move"):
                    return False
                tg = {r0["place"]["local"]} | {st["rv"]["place"]["local"] for kind, st, _ in b.prov.defs.get(r0["place"]["local"], ()) if kind == "assign" and st["rv"]["k"] == "ref"}
                # through the auto-deref of `Vec` to a slice
                for x in list(tg):
                    for kind, st, _ in b.prov.defs.get(x, ()):
                        if kind == "call" and re.search(r"Deref(Mut)?>?::deref(_mut)?$", callee_base(st)) and st["args"] and operand_local(st["args"][0]) is not None:
                            y = operand_local(st["args"][0])
                            tg |= {y} | {s2["rv"]["place"]["local"] for k2, s2, _ in b.prov.defs.get(y, ()) if k2 == "assign" and s2["rv"]["k"] == "ref"}
                return bool(tg & srcs)
            sorts = [bb for bb, t in b.calls() if re.search(r"::(sort|sort_unstable|sort_by\w*|sort_unstable_by\w*)(::<.*>)?$", callee_base(t)) and on_src(t)]
            dedups = [bb for bb, t in b.calls() if re.search(r"Vec::<.*>::(dedup|dedup_by|dedup_by_key)(::<.*>)?$", callee_decl(t)) and on_src(t)]
            if sorts and dedups and any(b.dominates(s_, d_) for s_ in sorts for d_ in dedups):
                return True
            os_ = [o for o in origins(b, l) if o[0] != "await"] or origins(b, l)
            if not os_:
                return False
            for o in os_:
                if o[0] == "call" and re.search(r"::(collect|from_iter|into_iter|iter|cloned|copied|map|to_vec|to_owned|clone|into|from|deref|as_slice|as_ref|borrow|sorted|rev)(::<.*>)?$", o[1]) and o[3]["args"]:
                    if not dedup(operand_local(o[3]["args"][0]), depth + 1):
                        return False
                elif o[0] == "field" and len(o[1]) == 1 and o[1][0] in ("0",):
                    continue  # newtype wrapper around the recorded map: judged by the len() callee's own type below
                else:
                    return False
            return True
        bad = [t for t in cmp_lens if not re.search(r"(HashSet|HashMap|BTreeSet|BTreeMap)::<", callee_decl(t)) and not dedup(operand_local(t["args"][0]) if t["args"] else None)]
        ctx.check(not bad, f"{short(b.name)}/len-of-sets", [b.loc()], "the cardinality comparison counts a non-deduplicated collection (" + ", ".join(callee_decl(t)[:60] for t in bad) + "): overlapping resources make the counts differ for ever and the target is rebuilt on every run")


@rule("C03.ABSENT-SIDE-EQUAL", ["C03"], """a side of the comparison that is not declared (no `output`) compares equal: the function comparing a recorded side with an optional declared side
      returns true when nothing is declared - otherwise a target without outputs is rebuilt on every run""", "K2", floor=1)
def absent_side_equal(ctx):
    f = ctx.f
    n = 0
    for raw in f.user_bodies():
        if not (raw.coroutine and raw.ret == "bool"):
            continue
        fn = ctx.r.fn_of(raw)
        opt_params = [l.get("name") for l in fn.locals[1:fn.argc + 1] if re.search(r"^std::option::Option<&[\w:]*Resources>$", l["ty"])]
        if not opt_params:
            continue
        b = raw
        # the `None` edge of the declared-resources parameter (a captured variable of the async body)
        for e in b.edges:
            l = e.label
            if not (l and l[0] == "variant" and set(l[2]) == {"None"} and l[3]):
                continue
            fields = place_fields(l[3])
            o = edge_origin(b, e)
            if fields and fields[0].isdigit():
                # `match (recorded, declared) { (_, None) => true, .. }`: the element of the tuple that is tested, not the tuple as a whole
                o = []
                for kind, x, pb in b.prov.direct_producers(l[3]["local"]):
                    if kind == "agg" and int(fields[0]) < len(x["rv"]["ops"]):
                        el = operand_local(x["rv"]["ops"][int(fields[0])])
                        o += origins(b, el) if el is not None else []
            if not (any(nm in fields for nm in opt_params) or origin_matches(o, lambda x: x[0] == "field" and any(nm in x[1] for nm in opt_params))):
                continue
            n += 1
            bad = []
            for p in enumerate_paths(b):
                if e not in p:
                    continue
                ro = ret_origins(b, p)
                if not is_const_ret(ro, "true"):
                    bad.append(p)
            ctx.check(not bad, f"{short(fn.name)}/none-is-equal", [site(b, e.src)], "with nothing declared on this side the comparison does not return true: a target without (e.g.) outputs would never be skipped")
    ctx.need(n >= 1, "comparison of a recorded side with an optional declared side")


@rule("C03.DECODE-LIMIT-COVERS-FILE", ["C03", "C05"], """the size limit of the state decode is the length of the state file itself (not a smaller constant or a minimum): every state zinoma
      wrote can be read back, whatever its size""", "K5", floor=1)
def decode_limit_covers_file(ctx):
    f = ctx.f
    n = 0
    for b in f.user_bodies():
        for bb, t in b.calls():
            if re.search(r"bincode::(config::)?Options>?::with_limit$|::with_limit$", t["callee"]["base"]) and "bincode" in callee_decl(t):
                n += 1
                l = operand_local(t["args"][1]) if len(t["args"]) > 1 else None
                o = origins(b, l) if l is not None else []
                direct = any(x[0] == "call" and x[1].endswith("Metadata::len") for x in o)
                ctx.check(direct and len(o) == 1, f"{short(ctx.r.outer_fn(b).name)}/limit", [site(b, bb)],
                          "the decode limit is not exactly the file's own length (a cap below the size of a legitimately written state makes it 'corrupted': it is dropped and the target rebuilt on every run)")
    if n == 0:
        sl = [(b, bb) for b in f.user_bodies() for bb, t in b.calls() if re.match(r"^bincode::deserialize", t["callee"]["base"])]
        ctx.need(sl, "a bincode decode of the state file")
        for (b, bb) in sl:
            ctx.ok(f"{short(ctx.r.outer_fn(b).name)}/no-cap", [site(b, bb)], "no size cap below the file's length (an absent limit is C05.BOUNDED-DECODE's business; it cannot make a legitimate state undecodable)")


_PLAIN_ADAPTORS = re.compile(r"(::iter$|::into_iter$|::cloned$|::copied$|::map(::<.*>)?$|::iter_mut$|Deref>::deref$|::as_slice$|::collect(::<.*>)?$|IntoIterator>::into_iter$|::values$|::keys$|::enumerate$|::by_ref$|from_iter|::buffer_unordered|stream::iter|::to_vec$|::as_ref$|Clone>::clone$)")


@rule("C02.ALL-RESOURCES-COMPARED", ["C02", "C13"], """the recording and the comparison of command outputs run every declared command resource: the per-command futures are built from the
      `cmds` parameter through plain iteration only (no de-duplication, filtering or truncation in between)""", "K5", floor=2)
def all_resources_compared(ctx):
    f = ctx.f
    runners = cmd_state_bodies(ctx)
    scope_fns = {ctx.r.outer_fn(b).name for b in f.user_bodies() if any(a.callee in runners for a in awaits(b))}
    scope_fns |= {ctx.r.outer_fn(b).name for b in f.user_bodies() if any(re.search(r"&\[[\w:]*CmdResource\]", l["ty"]) for l in b.locals[1:b.argc + 1])}
    scope_fns -= runners
    n = 0
    for fn in sorted(scope_fns):
        b = f.coroutine_of(fn)
        if b is None:
            continue
        slice_params = {l.get("name") for l in f.bodies[fn].locals[1:f.bodies[fn].argc + 1] if re.search(r"&\[[\w:]*CmdResource\]", l["ty"])}
        # the iterator handed to try_join_all / all / join_all
        for bb, t in b.calls():
            if re.search(r"future::try_join_all|future::join_all|async_utils::all$", callee_base(t)) or (callee_base(t) in f.bodies and f.bodies[callee_base(t)].ret.startswith("impl futures::Future<Output = bool>")):
                if not t["args"]:
                    continue
                n += 1
                at = b.prov.operand_atoms(t["args"][0], interproc=False)
                from_param = any(a[0] == "field" and a[1].startswith("{env of") and a[2] in slice_params for a in at)
                odd = sorted(c for c in atom_callres(at) if not _PLAIN_ADAPTORS.search(c) and c not in runners)
                ctx.check(from_param and not odd, f"{short(fn)}/over-all-cmds", [site(b, bb)],
                          ("the per-command futures are not built from the `cmds` parameter" if not from_param else f"the declared commands pass through {odd} before being run: some command resource may never be run or compared"))
    ctx.need(n >= 2, "recording and comparison of the command outputs")
