"""Rule registry, evaluation context, verdicts (DESIGN.md 3.3-3.5)."""
import collections, traceback, re, json, os

RULES = collections.OrderedDict()


class AnchorLost(Exception):
    pass


class RuleDef:
    def __init__(self, rid, props, statement, fn, kind, floor=None):
        self.rid, self.props, self.statement, self.fn, self.kind, self.floor = rid, props, statement, fn, kind, floor


def rule(rid, props, statement, kind="K1", floor=None):
    """register a rule. props: properties whose check evaluates the rule (attribution table 3.7.1)."""
    def deco(fn):
        RULES[rid] = RuleDef(rid, props, " ".join(statement.split()), fn, kind, floor)
        return fn
    return deco


class Instance:
    def __init__(self, rule, key, held, sites, detail, props=None, found=None, path=None):
        self.rule, self.key, self.held, self.sites, self.detail, self.props, self.found, self.path = rule, key, held, sites, detail, props, found, path

    def to_json(self):
        d = {"rule": self.rule, "key": self.key, "held": self.held, "sites": self.sites}
        if self.detail:
            d["detail"] = self.detail
        if self.found:
            d["found"] = self.found
        if self.path:
            d["path"] = self.path
        return d


class Ctx:
    """evaluation context handed to every rule"""

    def __init__(self, facts, roles, controls=None):
        self.f = facts
        self.r = roles
        self.controls = controls  # (facts, roles) of the positive-control crate, or None
        self.instances = []
        self.cur = None
        self.notes = []

    def _key(self, inst):
        rid = self.cur.rid
        prop = rid.split(".")[0]
        name = rid.split(".", 1)[1]
        return f"{prop}/{name}/{inst}"

    def ok(self, inst, sites=(), detail="", props=None):
        self.instances.append(Instance(self.cur.rid, self._key(inst), True, list(sites), detail, props))

    def bad(self, inst, sites=(), found="", detail="", props=None, path=None):
        self.instances.append(Instance(self.cur.rid, self._key(inst), False, list(sites), detail, props, found, path))

    def check(self, cond, inst, sites=(), found="", detail="", props=None):
        if cond:
            self.ok(inst, sites, detail, props)
        else:
            self.bad(inst, sites, found, detail, props)
        return cond

    def need(self, cond, what):
        if not cond:
            raise AnchorLost(what)

    def note(self, s):
        self.notes.append(s)


def evaluate(ctx, prop=None, only=None):
    """evaluate every rule serving `prop` (or all). Returns list of Instance."""
    for rid, rd in list(RULES.items()):
        if prop is not None and prop not in rd.props:
            continue
        if only is not None and rid not in only:
            continue
        ctx.cur = rd
        n0 = len(ctx.instances)
        try:
            rd.fn(ctx)
        except AnchorLost as e:
            ctx.instances.append(Instance(rid, ctx._key("ANCHOR-LOST"), False, [], "", None,
                                          f"anchor lost: {e} (the construct this rule is anchored in could not be found; the rule fails closed)"))
        except Exception as e:
            tb = traceback.format_exc().strip().splitlines()
            ctx.instances.append(Instance(rid, ctx._key("ANCHOR-LOST"), False, [], "", None,
                                          f"rule could not be evaluated on this shape of the code ({type(e).__name__}: {e}; {tb[-3].strip() if len(tb) > 2 else ''}); fails closed"))
        n = len(ctx.instances) - n0
        if rd.floor is not None and n < rd.floor and not any(not i.held for i in ctx.instances[n0:]):
            ctx.instances.append(Instance(rid, ctx._key("ANCHOR-LOST"), False, [], "", None,
                                          f"only {n} instance(s) of this rule were found, {rd.floor} were confirmed by hand on the reference tree: an anchored construct disappeared (fails closed)"))
        if n == 0 and rd.floor is None:
            ctx.instances.append(Instance(rid, ctx._key("ANCHOR-LOST"), False, [], "", None,
                                          "the rule matched no site at all (a rule must never pass vacuously)"))
    out = ctx.instances
    if prop is not None:
        out = [i for i in out if i.props is None or prop in i.props]
    return out


def load_known(path):
    known = {}   # (prop, key) -> text
    fixed = []
    if os.path.exists(path):
        for line in open(path):
            line = line.strip()
            if line.startswith("known:"):
                m = re.match(r"known:\s+property=(\S+)\s+key=(\S+)\s*(.*)", line)
                if m:
                    known[(m.group(1), m.group(2))] = m.group(3)
            elif line.startswith("fixed:"):
                fixed.append(line)
    return known, fixed
