"""C06 (watch-mode wiring) and C08 (exactly once / only the closure) rules."""
from common import *
from engine import rule, AnchorLost
from rules_c01 import _must_pass, readiness_guard


def invalidation_arms(actor):
    return arm_by_payload(actor, lambda p: "TargetInvalidatedMessage" in p)


def notifier_calls(r, body, blocks=None):
    """awaited calls of the invalidation notifier in `blocks`: [(bb, term, kinds)]"""
    out = []
    for bb, t in calls_to_role(r, body, r.invalidation_notifiers(), blocks):
        if is_awaited(body, bb):
            out.append((bb, t, kind_of_operand(body, t["args"][1]) if len(t["args"]) > 1 else set()))
    return out


@rule("C06.EVENT-INVALIDATES", ["C06"], """in every actor that owns a file-change receiver, the select arm of that receiver calls the invalidation notifier with the
      actor's own kind on every path""", "K1", floor=2)
def event_invalidates(ctx):
    r = ctx.r
    ctx.need(r.invalidation_notifiers(), "invalidation notifier")
    n = 0
    for a in r.actors():
        kinds = r.actor_kinds(a)
        arms = invalidation_arms(a)
        if kinds and not arms:
            ctx.bad(f"{r.actor_label(a)}/no-arm", [a.loc()], "an executing actor has no select arm on its file-change receiver: file changes never invalidate the target")
            continue
        for arm in arms:
            n += 1
            calls = [c for c in notifier_calls(r, a, arm.region) if _must_pass(a, arm.region, c[0])]
            good = [c for c in calls if c[2] and c[2] <= kinds]
            ctx.check(bool(good), f"{r.actor_label(a)}/event-arm", [site(a, c[0]) for c in good] or [a.loc(arm.edge.dst)],
                      "the file-change arm does not call the invalidation notifier (with the actor's kind) on every path: a change is absorbed")
    ctx.need(n >= 2, "file-change arms in the build and service actors")


@rule("C06.DEP-INVALIDATION-PROPAGATES", ["C06", "C20"], """an Invalidated from a dependency re-arms the dependent: build actor (Build kind) and service actor call the
      invalidation notifier; the aggregate forwards Invalidated with the incoming kind to its requesters""", "K1", floor=3)
def dep_invalidation_propagates(ctx):
    r = ctx.r
    req_fanout = {r.fn_of(b).name for b in fanout_fns(r, "requesters")}
    for a in r.actors():
        lab = r.actor_label(a)
        kinds = r.actor_kinds(a)
        Rinv = msg_region(a, "Invalidated")
        ctx.need(Rinv, f"Invalidated handler in {lab}")
        if kinds:
            calls = notifier_calls(r, a, Rinv)
            good = [c for c in calls if c[2] and c[2] <= kinds]
            # conditions guarding the call may only concern the message's kind
            ok = False
            for c in good:
                conds = [e for e in a.edges if e.src in Rinv and e.label and e.label[0] == "bool" and c[0] in a.dominated_by_edge(e)]
                only_kind = True
                for e in conds:
                    od = bool_atom_desc(a, e.label[2])
                    # (testing `!to_execute` before calling the notifier repeats the notifier's own first test - C06.NOTIFIER: it does nothing when the target
                    # is already marked - and changes nothing)
                    if od and all((d[0] == "field" and d[1] == "to_execute" and e.label[1] is False) or
                                  (d[0] == "not" and e.label[1] is True and d[1] and all(x[0] == "field" and x[1] == "to_execute" for x in d[1])) for d in od):
                        continue
                    if not all(d[0] == "call" and d[1].endswith("PartialEq>::eq") and any(msg_field_atoms("Invalidated", "kind")(x) for x in d[2]) for d in od):
                        only_kind = False
                    # ... and the case that must get through is the invalidation of a *Build* dependency (its outputs are about to change): the test may
                    # only single out `kind == Build`
                    for d in od:
                        if d[0] == "call" and d[1].endswith("PartialEq>::eq"):
                            others = set()
                            for x in d[2]:
                                if not msg_field_atoms("Invalidated", "kind")(x):
                                    others |= atom_aggs(x, "ExecutionKind")
                            if others != {"Build"} or e.label[1] is not True:
                                only_kind = False
                if only_kind:
                    ok = True
            ctx.check(ok, f"{lab}/Invalidated", [site(a, c[0]) for c in good] or [a.loc(min(Rinv))],
                      "an invalidated dependency does not re-arm the target (no notifier call guarded by the message kind only): its rebuilt outputs would not be picked up", props=["C06"])
        else:
            good = []
            for bb, t in calls_in(a, Rinv, lambda n: n in req_fanout):
                msg = resolve_msg(a, t["args"][2]) if len(t["args"]) > 2 else None
                if msg and msg.variant == "Invalidated" and "msg" in msg.kinds \
                        and "msg" in kind_of_operand(a, t["args"][1]) and is_awaited(a, bb) \
                        and not conditions_within(dominating_conditions(a, bb, Rinv), [(cond_is_insert_result("unavailable_dependencies"), True), (cond_len_eq_one("unavailable_dependencies"), True)]):
                    good.append(bb)
            ctx.check(bool(good), f"{lab}/Invalidated", [site(a, b) for b in good] or [a.loc(min(Rinv))],
                      "the aggregate does not forward Invalidated (with the incoming kind) to its requesters", props=["C06", "C20"])


@rule("C06.NOTIFIER", ["C06"], """the invalidation notifier, when the target is not already marked, sets to_execute, clears executed and sends Invalidated{kind}
      to all requesters of that kind""", "K1", floor=1)
def notifier(ctx):
    r = ctx.r
    req_fanout = {r.fn_of(b).name for b in fanout_fns(r, "requesters")}
    ctx.need(r.invalidation_notifiers(), "invalidation notifier")
    for b in r.invalidation_notifiers():
        G = guard_region(b, desc_is_field_read("to_execute"), False)
        ctx.need(G, "`if !to_execute` region in the notifier")
        w_te = [bb for (wb, bb, st) in r.field_writes("to_execute") if wb is b and bb in G and is_const(st["rv"]["op"], "true")] if True else []
        w_ex = [bb for (wb, bb, st) in r.field_writes("executed") if wb is b and bb in G and st["rv"]["k"] == "use" and is_const(st["rv"]["op"], "false")]
        sends = []
        for bb, t in calls_in(b, G, lambda n: n in req_fanout):
            msg = resolve_msg(b, t["args"][2]) if len(t["args"]) > 2 else None
            if msg and msg.variant == "Invalidated" and is_awaited(b, bb) and _must_pass(b, G, bb):
                k1 = msg.kinds
                k2 = kind_of_operand(b, t["args"][1])
                if "param" in k1 and "param" in k2:
                    sends.append(bb)
        ctx.check(bool(w_te) and bool(w_ex), f"{short(b.name)}/flags", [site(b, x) for x in w_te + w_ex] or [b.loc()], "the notifier does not set to_execute := true and executed := false")
        ctx.check(bool(sends), f"{short(b.name)}/tells-requesters", [site(b, x) for x in sends] or [b.loc()],
                  "the notifier does not send Invalidated{kind} to all requesters of that kind on every path: dependents would keep a stale Ok")


def inflight_markers(actor):
    """locals of the build actor that hold the cancellation sender of the in-flight build: Option<Sender<BuildCancellationMessage>>"""
    return [i for i, l in enumerate(actor.locals) if re.match(r"std::option::Option<async_std::channel::Sender<[\w:]*BuildCancellationMessage>>$", l["ty"]) and l.get("name")]


def build_result_arms(actor):
    return arm_by_payload(actor, lambda p: "IncrementalRunResult" in p)


@rule("C06.REARM", ["C06", "C10"], """the build-result arm of the build actor resets the in-flight marker on every path, so that the start guard can fire again""", "K1", floor=1)
def rearm(ctx):
    r = ctx.r
    n = 0
    for a in r.actors():
        arms = build_result_arms(a)
        if not arms:
            continue
        marks = inflight_markers(a)
        ctx.need(marks, "in-flight marker (Option<Sender<BuildCancellationMessage>>) in the build actor")
        for arm in arms:
            n += 1
            resets = []
            for bb in arm.region:
                for st in a.stmts(bb):
                    if st["lhs"]["local"] in marks and not st["lhs"]["proj"] and assigned_agg_variants(a, st) == {"None"}:
                        if _must_pass(a, arm.region, bb):
                            resets.append(bb)
            ctx.check(bool(resets), f"{r.actor_label(a)}/build-result-arm", [site(a, b) for b in resets] or [a.loc(arm.edge.dst)],
                      "the in-flight marker is not reset on every path of the build-result arm: after one build the target can never be started again")
    ctx.need(n >= 1, "build-result arm")


def watcher_ctor_bodies(ctx):
    """[(view, bb, term)] of every call of notify's Watcher::watch, seen in the root view containing it (the error triage may live in helpers)"""
    out = []
    seen = set()
    for raw in ctx.f.user_bodies():
        for bb, t in raw.calls():
            if t["callee"]["base"].endswith("Watcher::watch") and "notify" in callee_decl(t):
                root = ctx.r.container(raw)
                rv = ctx.r.V(root)
                nb = bb if root.name == raw.name else rv.locate(raw.name, bb)
                if nb is None:
                    rv, nb = ctx.r.V(raw), bb
                if (rv.name, nb) not in seen:
                    seen.add((rv.name, nb))
                    out.append((rv, nb, rv.term(nb)))
    return out


@rule("C06.MISSING-PATH-TOLERATED", ["C06"], """a declared path that does not exist yet does not make watcher construction fail: the error returned for a failed `watch` is never
      produced for a missing path, in either form the library reports it (ErrorKind::PathNotFound, or ErrorKind::Io with io::ErrorKind::NotFound)""", "K1", floor=1)
def missing_path_tolerated(ctx):
    ws = watcher_ctor_bodies(ctx)
    ctx.need(ws, "call of notify Watcher::watch")
    for (b, bb, t) in ws:
        # accepted alternative idiom: the watch is only attempted on paths that exist
        Gex = guard_region(b, lambda d: d[0] == "call" and d[1].endswith("Path::exists"), True)
        if bb in Gex:
            ctx.ok(f"{short(b.name)}/missing-path", [site(b, bb)], "watch attempted only on existing paths")
            continue
        dl = t["dest"]["local"]
        err_edges = [e for e in b.edges if e.label and e.label[0] == "variant" and path_ends(e.label[1] or "", "Result") and "Err" in e.label[2] and e.label[3] and e.label[3]["local"] == dl]
        if not err_edges:
            # `?` or unwrap on the watch result: every error, including a missing path, fails construction
            ctx.bad(f"{short(b.name)}/missing-path", [site(b, bb)], "the result of `watch` is propagated without looking at the error: a missing declared path makes watch mode fail on a clean tree")
            continue
        bad = []
        n_paths = 0
        for ee in err_edges:
            Rerr = b.dominated_by_edge(ee)
            ret_errs = [x for (x, st) in b.aggregates("Result", "Err") if x in Rerr and "anyhow::Error" in st["lhs"]["ty"]]
            tries = [tb for (tb, sb, ce, be) in try_edges(b) if tb in Rerr]
            targets = set(ret_errs) | set(tries)
            if not targets:
                continue
            for p in enumerate_paths(b, start=ee.dst, stop_at=targets, within=Rerr | {ee.dst}):
                if not p or p[-1].dst not in targets and ee.dst not in targets:
                    continue
                if not feasible_path(b, p, start=ee.dst):
                    continue
                n_paths += 1
                kinds_taken = [e for e in p if e.label and e.label[0] == "variant" and path_ends(e.label[1] or "", "ErrorKind") and "notify" in (e.label[1] or "")]
                # the error kinds this path is taken for: every test of the kind on the path narrows them (an `_ =>` arm after an `Io(..)` arm was
                # taken for an Io error only)
                possible = None
                for e in kinds_taken:
                    possible = set(e.label[2]) if possible is None else (possible & set(e.label[2]))
                via_pnf = possible is not None and "PathNotFound" in possible
                via_io = possible is None or "Io" in possible
                def not_found_test(o):
                    def is_kind_call(x):
                        return x[0] == "call" and x[1].endswith("io::Error::kind")
                    if o[0] == "call" and (o[1].endswith("PartialEq>::eq") or o[1].endswith("PartialEq>::ne")):
                        at = set()
                        for a in o[3]["args"]:
                            at |= b.prov.operand_atoms(a)
                        return any(c.endswith("io::Error::kind") for c in atom_callres(at)) and "NotFound" in atom_aggs(at, "ErrorKind")
                    return False
                facts = path_facts(b, p)
                io_ok = has_fact(facts, "bool", False, lambda o: not_found_test(o) and o[1].endswith("::eq")) or has_fact(facts, "bool", True, lambda o: not_found_test(o) and o[1].endswith("::ne"))
                if via_pnf or (via_io and not io_ok):
                    bad.append((p, "PathNotFound" if via_pnf else "Io(NotFound)"))
        ctx.check(not bad and n_paths >= 1, f"{short(b.name)}/missing-path", [site(b, bb)],
                  (f"an error is returned for a missing path reported as {sorted({w for _, w in bad})}: watch mode cannot start on a clean tree where a declared path (e.g. a dependency's output) does not exist yet; e.g. {fmt_path(b, bad[0][0])}") if bad else "no error path found",
                  detail=f"{n_paths} error-returning path(s) examined")


@rule("C06.RECURSIVE", ["C06", "C16"], """paths are watched recursively""", "K5", floor=1)
def recursive(ctx):
    ws = watcher_ctor_bodies(ctx)
    ctx.need(ws, "call of notify Watcher::watch")
    for (b, bb, t) in ws:
        modes = atom_aggs(b.prov.operand_atoms(t["args"][2]), "RecursiveMode") if len(t["args"]) > 2 else set()
        ctx.check(modes == {"Recursive"}, f"{short(b.name)}", [site(b, bb)], f"paths are watched with mode {sorted(modes)}: changes in sub-directories are not seen")


def watcher_ctor_fn(ctx):
    """the watcher constructor: the innermost local fn returning Result<Option<TargetWatcher>> whose view constructs a TargetWatcher"""
    r = ctx.r
    cands = [b for b in ctx.f.user_bodies() if re.search(r"Result<std::option::Option<[\w:]*TargetWatcher>", b.ret) and b.kind in ("Fn", "AssocFn") and list(r.V(b).aggregates("TargetWatcher"))]
    if not cands:
        # under another signature (`InvalidationSource::new(..) -> Result<Self>`): the local fn that builds a TargetWatcher and registers paths with the back-end
        cands = [b for b in ctx.f.user_bodies() if b.kind in ("Fn", "AssocFn") and list(r.V(b).aggregates("TargetWatcher")) and
                 any(re.search(r"Watcher>?::watch$", t["callee"]["base"]) for x in [b.name] + sorted(ctx.f.cg.reach([b.name], cross_spawn=False)) if x in ctx.f.bodies for _, t in ctx.f.bodies[x].calls())]
    out = [r.V(b) for b in r.minimal(cands)]
    ctx.need(out, "watcher constructor (-> Result<Option<TargetWatcher>>, builds a TargetWatcher)")
    return out


@rule("C06.RESOURCE-ACCESSORS", ["C06", "C13", "C12"], """the accessors of a target's declared resources return them for every kind of target that declares them: `input` of builds and services (what is
      watched and compared), `output` of builds (what is inherited and cleaned) - none of those kinds is answered `None`""", "K4", floor=2)
def resource_accessors(ctx):
    f = ctx.f
    def payload_fields(v):
        out = set()
        for fd in v["fields"]:
            a = f.adts.get(fd["ty"])
            if a and not a["enum"]:
                out |= {(x["name"], x["ty"]) for x in a["variants"][0]["fields"]}
        return out
    n = 0
    for b in f.user_bodies():
        if b.kind not in ("Fn", "AssocFn") or b.argc != 1 or not re.search(r"^&[\w:]*Target$", b.locals[1]["ty"]) or not re.search(r"^std::option::Option<&[\w:]*Resources>$", b.ret):
            continue
        # which field this accessor is about: the field(s) its Some(..) values read
        somes = list(b.aggregates("Option", "Some"))
        fields_read = set()
        for bb, st in somes:
            for o in st["rv"]["ops"]:
                if o["k"] != "const":
                    fields_read |= {a[2] for a in b.prov.operand_atoms(o, interproc=False) if a[0] == "field" and f.adts.get(a[1]) and any(x["ty"].endswith("Resources") for x in f.adts[a[1]]["variants"][0]["fields"] if x["name"] == a[2])}
        if len(fields_read) != 1:
            continue
        fld = next(iter(fields_read))
        T = f.adts.get(b.locals[1]["ty"].lstrip("&").strip())
        if not T or not T["enum"]:
            continue
        n += 1
        for v in T["variants"]:
            if not any(nm == fld and ty.endswith("Resources") for nm, ty in payload_fields(v)):
                continue
            R = variant_region(b, "Target", v["name"])
            ok = any(bb in R for bb, st in somes)
            ctx.check(ok, f"{short(b.name)}/{v['name']}", [site(b, bb) for bb, st in somes if bb in R] or [b.loc()],
                      f"`{short(b.name)}` answers None for a {v['name']} target although it declares `{fld}`: its {fld} would be neither watched, compared nor cleaned",
                      props=["C06", "C13"] if fld == "input" else ["C13", "C12"])
    ctx.need(n >= 2, "accessors of a target's declared input / output")


@rule("C06.WATCH-OPTION-WIRED", ["C06"], """`--watch` turns watching on: every construction of WatchOption::Enabled from a flag sits on the true edge of that flag (and is reachable), Disabled on the
      false edge, and main derives the option from the WATCH argument""", "K1", floor=2)
def watch_option_wired(ctx):
    f = ctx.f
    r = ctx.r
    n = 0
    # every actor is launched with the option of the run: no launch path hands the launcher a literal `WatchOption::Disabled` / `Enabled` of its own (a
    # dependency launched lazily must be watched like a requested target)
    for fn_ in f.user_bodies():
        if fn_.kind not in ("Fn", "AssocFn") or f.is_derived(fn_):
            continue
        widx = [i for i in range(1, fn_.argc + 1) if path_ends(fn_.locals[i]["ty"].replace("&", "").strip(), "WatchOption")]
        if not widx:
            continue
        for (cn, cbb) in f.cg.call_sites.get(fn_.name, ()):
            if cbb is None or cn not in f.bodies or f.is_derived(f.bodies[cn]) or f.bodies[cn].term(cbb)["k"] != "call":
                continue
            cv = f.bodies[cn]
            ct = cv.term(cbb)
            for i in widx:
                if i - 1 >= len(ct["args"]):
                    continue
                a_ = ct["args"][i - 1]
                lits = set(atom_aggs(cv.prov.operand_atoms(a_, interproc=False), "WatchOption"))
                if a_["k"] == "const" and "WatchOption::" in str(a_.get("val", "")):
                    lits.add(str(a_["val"]).split("::")[-1])
                ctx.check(not lits, f"{short(cn)}/{short(fn_.name).split('::')[-1]}/with-the-run's-option", [site(cv, cbb)],
                          f"`{short(fn_.name)}` is handed a literal WatchOption::{'/'.join(sorted(lits))} instead of the option of the run: targets reached this way are never "
                          "(or always) watched - in watch mode a change to the inputs of a dependency that was not named on the command line is never rebuilt")
    for b in f.user_bodies():
        en = list(b.aggregates("WatchOption", "Enabled")) + [(blk["id"], st) for blk in b.normal_blocks() for st in blk["stmts"]
                                                               if st["rv"]["k"] == "use" and st["rv"]["op"]["k"] == "const" and str(st["rv"]["op"].get("val", "")).endswith("WatchOption::Enabled")]
        if not en:
            continue
        live = b.reachable_blocks()
        for (bb, st) in en:
            n += 1
            Gt = guard_region(b, lambda d: d[0] == "param", True)
            ctx.check(bb in live and (bb in Gt or b.argc == 0), f"{short(b.name)}/enabled-on-true", [site(b, bb)],
                      "WatchOption::Enabled is not what a true flag converts to (dead code, or chosen on the wrong branch): `--watch` would not watch")
    # main: the option handed to the engine derives from is_present(WATCH)
    m = f.bodies[r.main_body().name]
    ma = r.main_async()
    ok = False
    for body in (m, f.bodies[ma.name]):
        for bb, t in body.calls():
            if t["callee"]["base"].endswith("ArgMatches::is_present") and len(t["args"]) > 1 and any(a[0] in ("static", "constdef") and a[1].endswith("WATCH") for a in body.prov.operand_atoms(t["args"][1])):
                fl = body.prov.flows_forward(t["dest"]["local"])
                if any("WatchOption" in body.locals[l]["ty"] for l in fl):
                    ok = True
                # bound to a local before the async block and converted inside it: the captured variable is read there and flows into a WatchOption
                for blk in body.normal_blocks():
                    for st in blk["stmts"]:
                        if st["rv"]["k"] == "agg" and st["rv"].get("coroutine") == ma.name:
                            for nm, o in zip(st["rv"].get("fields") or [], st["rv"]["ops"]):
                                if operand_local(o) in fl:
                                    mab = f.bodies[ma.name]
                                    for l2, loc in enumerate(mab.locals):
                                        if "WatchOption" in loc["ty"] and any(a[0] == "field" and a[1].startswith("{env of") and a[2] == nm for a in mab.prov.atoms(l2, interproc=False)):
                                            ok = True
    n += 1
    ctx.check(ok, "main/option-from-watch-flag", [m.loc()], "the watch option is not derived from the WATCH command-line flag")
    ctx.need(n >= 2, "construction of WatchOption::Enabled and its use in main")


@rule("C06.WATCHER-RETAINED", ["C06", "C13", "C16"], """in watch mode the launcher builds the watcher from the target's whole input and the actor's own invalidation sender, and keeps
      it alive in the handle set stored by TargetActors""", "K5", floor=2)
def watcher_retained(ctx):
    r = ctx.r
    ctors = {b.name for b in watcher_ctor_fn(ctx)}
    ls = r.launchers()
    ctx.need(ls, "actor launcher")
    input_fns = {b.name for b in ctx.f.user_bodies() if b.name.endswith("Target::input")}
    for L in ls:
        lab = short(L.name)
        Ren = variant_region(L, "WatchOption", "Enabled")
        calls = calls_in(L, Ren, lambda n: n in ctors)
        if not calls:
            ctx.bad(f"{lab}/ctor", [L.loc()], "the launcher does not build a watcher in watch mode", props=["C06", "C13"])
            continue
        for bb, t in calls:
            in_at = L.prov.operand_atoms(t["args"][1]) if len(t["args"]) > 1 else set()
            snd_at = L.prov.operand_atoms(t["args"][2], interproc=False) if len(t["args"]) > 2 else set()
            from_input = bool(atom_callres(in_at) & input_fns) or atom_has_field(in_at, "input")
            own_sender = any(c.startswith("async_std::channel::bounded") or c.startswith("async_std::channel::unbounded") for c in atom_callres(snd_at))
            ctx.check(from_input and own_sender, f"{lab}/ctor-args", [site(L, bb)],
                      "the watcher is not built from the target's declared input and the actor's own invalidation sender", props=["C06", "C13"])
            # the result flows into a handle set, and the handle set into the registry's map
            fl = L.prov.flows_forward(t["dest"]["local"])
            stored = [(x, st) for (x, st) in L.aggregates("TargetActorHandleSet") if any(operand_local(o) in fl for o in st["rv"]["ops"])]
            ctx.check(bool(stored), f"{lab}/kept", [site(L, x) for x, _ in stored] or [site(L, bb)], "the watcher is dropped after construction: watching stops at once", props=["C06", "C13"])
            # the handle set also keeps the actor's own end of the invalidation channel, unconditionally: a watcher without any file watcher (only command
            # resources, or no existing path) holds no clone, and a channel whose last sender is gone makes the actor's file-change arm fire for ever
            def chan_calls(o):
                return {x[2] for x in flat_origins(o) if x[0] == "call" and x[1].startswith("async_std::channel::")}
            def flat_origins(o):
                out = []
                for x in o:
                    out.append(x)
                    if x[0] == "field":
                        out += flat_origins(x[2])
                return out
            sl = operand_local(t["args"][2]) if len(t["args"]) > 2 else None
            own = chan_calls(origins(L, sl)) if sl is not None else set()
            f_ = ctx.f
            def holder_adts():
                """ADTs every construction of which stores a sender of the invalidation channel taken from a parameter of the constructing fn (`TargetWatcher { _watchers, _sender:
                sender.clone() }`): a value of such a type keeps the channel open as long as it lives"""
                out = set()
                for _ in range(3):
                    for ap, adt in f_.adts.items():
                        if ap in out or ap.startswith("std::"):
                            continue
                        sites_ = [(xb, sb, ss) for xb in f_.user_bodies() for (sb, ss) in xb.aggregates(ap.split("::")[-1]) if ss["rv"].get("adt") == ap]
                        if not sites_:
                            continue
                        good = True
                        for (xb, sb, ss) in sites_:
                            one = False
                            for op_ in ss["rv"]["ops"]:
                                ol_ = operand_local(op_)
                                if ol_ is None:
                                    continue
                                ty_ = re.sub(r"^(&(mut )?)+", "", xb.locals[ol_]["ty"])
                                if re.search(r"Sender<[\w:]*TargetInvalidatedMessage>$", ty_):
                                    at_ = xb.prov.operand_atoms(op_, interproc=False)
                                    if any(a[0] == "param" or (a[0] == "field" and a[1].startswith("{env of")) for a in at_):
                                        one = True
                                elif ty_ in out:
                                    one = True
                            if not one:
                                good = False
                        if good:
                            out.add(ap)
                return out
            holders = holder_adts()
            def keeps_sender(ol, depth=0):
                if ol is None or depth > 4:
                    return False
                og = origins(L, ol)
                if not og:
                    return False
                if chan_calls(og) & own and all(y[0] == "field" or (y[0] == "call" and (y[1].startswith("async_std::channel::") or y[1].endswith("::clone"))) for y in flat_origins(og)):
                    return True
                # a value of a type that always holds a sender (the watcher itself)
                ty_ = re.sub(r"^(&(mut )?)+", "", L.locals[ol]["ty"])
                if ty_ in holders:
                    return True
                # a small local enum / struct built here: every way it is built keeps one (`Watcher(w)` or `Idle(sender)`)
                aggs = [y for y in og if y[0] == "agg"]
                if aggs and len(aggs) == len(og):
                    return all(any(keeps_sender(operand_local(o2), depth + 1) for o2 in y[4]["rv"]["ops"]) for y in aggs)
                return False
            for (x, st) in stored:
                keeps = any(keeps_sender(operand_local(o)) for o in st["rv"]["ops"])
                ctx.check(keeps, f"{lab}/own-sender-kept", [site(L, x)],
                          "the handle set does not keep the actor's own invalidation sender on every path: with nothing to watch the channel closes and the file-change arm "
                          "fires for ever (the target is re-invalidated in a loop and never reports success)", props=["C06", "C16"])
            def stored_in_registry(B, local, depth=0):
                """insert sites (body, block) of the registry's map that receive `local`, following returns to the callers"""
                fl2 = B.prov.flows_forward(local)
                out = [(B, cb) for cb, ct in B.calls()
                       if callee_decl(ct).endswith("::insert") and "TargetActorHandleSet" in callee_decl(ct) and len(ct["args"]) > 2 and operand_local(ct["args"][2]) in fl2]
                # (entry API: `vacant_entry.insert(handles)` / `entry.or_insert(handles)`)
                out += [(B, cb) for cb, ct in B.calls()
                        if re.search(r"(VacantEntry::<.*>::insert|Entry::<.*>::or_insert\w*)$", callee_decl(ct)) and "TargetActorHandleSet" in callee_decl(ct) and len(ct["args"]) > 1 and operand_local(ct["args"][1]) in fl2]
                if not out and 0 in fl2 and depth < 3:
                    for (cb2, bb2, t2) in r.callers_of(B):
                        if t2.get("dest") is not None:
                            out += stored_in_registry(cb2, t2["dest"]["local"], depth + 1)
                return out
            kept = False
            for (x, st) in stored:
                for (B, cb) in stored_in_registry(L, st["lhs"]["local"]):
                    kept = True
                    ctx.ok(f"{lab}/handles-stored", [site(B, cb)], props=["C06", "C13"])
            if not kept:
                ctx.bad(f"{lab}/handles-stored", [site(L, bb)], "the handle set (which owns the watcher) is not stored in the registry: the watcher is dropped", props=["C06", "C13"])


# ------------------------------------------------------------------ C08
@rule("C08.NOTIFIER-CALLERS", ["C08"], """the invalidation notifier is called only from a file-change arm or from the handler of an Invalidated message""", "K4", floor=3)
def notifier_callers(ctx):
    r = ctx.r
    ctx.need(r.invalidation_notifiers(), "invalidation notifier")
    for nb in r.invalidation_notifiers():
        for (cb, bb, t) in r.callers_of(nb):
            if r.is_role(r.actors(), cb):
                ok = any(bb in arm.region for arm in invalidation_arms(cb)) or bb in msg_region(cb, "Invalidated")
            else:
                ok = False
            ctx.check(ok, f"{short(cb.name)}@{_ord(cb, bb, nb, r)}", [site(cb, bb)], "the invalidation notifier is called outside a file-change arm / Invalidated handler: a target could run a second time in a one-shot run")


def _ord(cb, bb, nb, r):
    sites = sorted(x[1] for x in r.callers_of(nb) if x[0] is cb)
    return sites.index(bb)


@rule("C08.WATCHER-ONLY-IN-WATCH", ["C08"], """watchers are only created in watch mode; one-shot mode yields no watcher""", "K1", floor=1)
def watcher_only_in_watch(ctx):
    r = ctx.r
    f = ctx.f
    ctors = watcher_ctor_fn(ctx)
    for c in ctors:
        for (cb, bb, t) in r.callers_of(c, prefer=[]):
            Ren = variant_region(cb, "WatchOption", "Enabled")
            ok_ = bb in Ren
            if not ok_:
                # the constructor is always called, but is given something to watch only in watch mode: its optional input is `None` unless assigned under
                # WatchOption::Enabled (`let watched = match watch { Enabled => target.input(), Disabled => None }`)
                for a_ in t["args"]:
                    l_ = operand_local(a_)
                    if l_ is None or not re.search(r"Option<&?[\w:]*Resources>", cb.locals[l_]["ty"]):
                        continue
                    defs_ = [(k_, x_, b_) for (k_, x_, b_) in cb.prov.defs.get(l_, ()) if k_ in ("assign", "call")]
                    for _hop in range(4):   # through plain copies of the variable
                        if len(defs_) == 1 and defs_[0][0] == "assign" and defs_[0][1]["rv"]["k"] == "use" and defs_[0][1]["rv"]["op"]["k"] in ("copy", "move") and not defs_[0][1]["rv"]["op"]["place"]["proj"]:
                            defs_ = [(k_, x_, b_) for (k_, x_, b_) in cb.prov.defs.get(defs_[0][1]["rv"]["op"]["place"]["local"], ()) if k_ in ("assign", "call")]
                        else:
                            break
                    srcs_ = []
                    for (k_, x_, b_) in defs_:
                        is_none = k_ == "assign" and x_["rv"]["k"] == "agg" and x_["rv"].get("variant") == "None"
                        srcs_.append((b_, is_none))
                    if srcs_ and all(is_none or b_ in Ren for (b_, is_none) in srcs_) and any(is_none for (_, is_none) in srcs_):
                        ok_ = True
            ctx.check(ok_, f"{short(cb.origin(bb))}/ctor-call", [site(cb, bb)], "a watcher is created outside the WatchOption::Enabled branch: in a one-shot run a file change could re-run a target")
    # notify Watcher::new only reachable from the constructor
    reach = set()
    for c in ctors:
        reach |= f.cg.reach([c.name])
    for b in f.user_bodies():
        for bb, t in b.calls():
            if t["callee"]["base"].endswith("Watcher::new") and "notify" in callee_decl(t):
                outer = r.outer_fn(b).name
                ctx.check(b.name in reach or outer in reach, f"{short(b.name)}/notify-new", [site(b, bb)], "a notify watcher is created outside the watcher constructor")


@rule("C08.CLOSURE-ONLY", ["C08", "C09", "C12", "C20"], """only the resolver's result reaches the engine, the state cleaner and the output cleaner; an actor is created at most once per
      target, from the entry removed from the resolved map""", "K5", floor=4)
def closure_only(ctx):
    r = ctx.r
    f = ctx.f
    m = r.main_body()
    ma = r.main_async()
    # resolver entry point called from main: local fn returning Result<HashMap<TargetId, Target>>
    entry = [bb for bb, t in m.calls() if t["callee"]["local"] and re.search(r"Result<std::collections::HashMap<[\w:]*TargetId, [\w:]*Target>", f.bodies[callee_base(t)].ret if callee_base(t) in f.bodies else "")]
    ctx.need(entry, "call of the resolver entry point in main")
    entry_names = {callee_base(m.term(bb)) for bb in entry}
    # the closure's upvar `targets` in main derives from the resolver result
    cap = None
    for blk in m.normal_blocks():
        for st in blk["stmts"]:
            rv = st["rv"]
            if rv["k"] == "agg" and rv.get("coroutine") == ma.name:
                cap = (blk["id"], st)
    ctx.need(cap, "construction of main's async block")
    names = cap[1]["rv"].get("fields") or []
    by_name = {}
    for i, nm in enumerate(names):
        by_name[nm] = m.prov.operand_atoms(cap[1]["rv"]["ops"][i])
    tgt_upvars = {nm for nm, at in by_name.items() if atom_callres(at) & entry_names}
    ctx.check(bool(tgt_upvars), "main/targets-from-resolver", [site(m, cap[0])], "no captured variable of main's async block derives from the resolver result", props=["C08", "C09"])
    # uses in the async block: TargetActors::new, state delete loop, output clean loop must read those upvars
    ctor = [(bb, t) for bb, t in ma.calls() if callee_base(t).endswith("TargetActors::new") or re.search(r"TargetActors$", f.bodies[callee_base(t)].ret if callee_base(t) in f.bodies else "")]
    ctx.need(ctor, "construction of TargetActors in main")
    for bb, t in ctor:
        ups = r.root_env_fields(ma, t["args"][0])
        ctx.check(bool(ups) and ups <= tgt_upvars, "main/engine-gets-closure", [site(ma, bb)], f"the engine is given {sorted(ups)} which does not derive from the resolver's result", props=["C08", "C09"])
    from rules_incr import state_delete_fns
    dels, _ = state_delete_fns(ctx)
    cleaners = {b.name for b in f.user_bodies() if b.kind == "Fn" and any(x in f.cg.reach([b.name]) for x in [s[0].name for s in r.fs_sites(lambda n: "d" if is_fs_delete(n) else None)]) and re.search(r"&[\w:]*Target$", b.locals[1]["ty"] if b.argc >= 1 else "")}
    for bb, t in ma.calls():
        cn = callee_base(t)
        if cn in dels or cn in cleaners:
            ups = r.root_env_fields(ma, t["args"][0])
            ctx.check(bool(ups) and ups <= tgt_upvars, f"main/{short(cn)}", [site(ma, bb)], f"`{short(cn)}` is applied to {sorted(ups)}, not to the resolver's result: targets outside the requested closure would be touched (or targets inside it left out)",
                      props=["C08", "C09", "C12", "C20"])
    # actor creation: every site creating an actor's run future, seen in its root view
    for (L, bb, t) in r.launch_sites():
        at = L.prov.operand_atoms(t["args"][0]) if t["args"] else set()
        from_remove = any(c.endswith("::remove_entry") or c.endswith("::remove") for c in atom_callres(at))
        def has_key(d):
            return d[0] == "call" and d[1].endswith("::contains_key") and d[2] and (atom_has_field(d[2][0], "target_actor_handles") or any("TargetActorHandleSet" in str(x) for x in d[2][0]))
        G = guard_region(L, has_key, False)
        # ... or under the `Vacant` side of the entry of the handle-set map (the `Occupied` side hands back what is stored)
        for e in L.edges:
            if e.label and e.label[0] == "variant" and e.label[2] == ("Vacant",) and "TargetActorHandleSet" in str(e.label[3].get("ty") if isinstance(e.label[3], dict) else ""):
                G = G | L.dominated_by_edge(e)
        ctx.check(from_remove and bb in G, f"{short(L.name)}/launch-once@{short(callee_base(t))}", [site(L, bb)],
                  "an actor can be launched more than once for the same target (not guarded by `!handles.contains_key(id)` or not fed from the removed map entry)", props=["C08", "C09"])
