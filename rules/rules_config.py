"""C09 (resolver), C14 (configuration validation), C19 (target names) rules."""
from common import *
from engine import rule, AnchorLost
from rules_c01 import _must_pass
from rules_incr import panic_sites


def resolver(ctx):
    rs = ctx.r.resolvers()
    ctx.need(len(rs) == 1, f"the recursive resolver (found {len(rs)})")
    return rs[0]


def rec_sites(b):
    return [bb for bb, t in b.calls() if callee_base(t) == b.name]


def err_return_region(b, edge):
    """does every path after `edge` return Err? (no Ok aggregate assigned to _0 reachable before return)"""
    reach = b.reach_from(edge.dst) | {edge.dst}
    return reach


@rule("C09.SHARED-ONCE", ["C09"], """in the resolver every recursive call is preceded by the test 'already resolved' whose true edge returns Ok: a shared dependency is
      resolved once and the second arm of a diamond is accepted""", "K1", floor=1)
def shared_once(ctx):
    b = resolver(ctx)
    def already(d):
        return d[0] == "call" and d[1].endswith("::contains_key") and d[2] and any("HashMap<domain::TargetId" in str(x) or x[0] == "param" for x in d[2][0])
    edges_t = bool_edges(b, already, True)
    edges_f = bool_edges(b, already, False)
    ctx.need(edges_t and edges_f, "`if resolved.contains_key(id)` test in the resolver")
    G = set()
    for e in edges_f:
        G |= b.dominated_by_edge(e)
    for rb in rec_sites(b):
        ctx.check(rb in G, f"{short(b.name)}/guarded@{rec_sites(b).index(rb)}", [site(b, rb)], "a recursive resolution is not guarded by the 'already resolved' test")
    # the true edge returns Ok(())
    for e in edges_t:
        blks = b.dominated_by_edge(e)
        oks = [bb for (bb, st) in b.aggregates("Result", "Ok") if bb in blks and st["lhs"]["local"] == 0]
        errs = [bb for (bb, st) in b.aggregates("Result", "Err") if bb in blks]
        ctx.check(bool(oks) and not errs and not any(x in blks for x in rec_sites(b)), f"{short(b.name)}/already-resolved-is-ok", [site(b, e.src)],
                  "an already resolved target is not accepted with Ok(()): a valid diamond would be refused (or resolved twice)")


@rule("C09.RECURSION-BOUNDED", ["C09", "C19"], """every recursive call of the resolver is dominated by a `?`-checked removal of the target from the finite configuration, or by an ancestor
      test whose true edge returns Err with the ancestor chain extended by the current id: a cyclic project cannot recurse forever""", "K1", floor=1)
def recursion_bounded(ctx):
    b = resolver(ctx)
    recs = rec_sites(b)
    ctx.need(recs, "recursive call site")
    # (a) consuming removal: HashMap::remove on the yaml targets, `?`-checked, dominating the recursion
    consuming = []
    for bb, t in b.calls():
        if re.search(r"HashMap::<std::string::String, [\w:]*Target>::remove(::<.*>)?$", callee_decl(t)):
            fl = b.prov.flows_forward(t["dest"]["local"])
            for (tb, sb, ce, be) in try_edges(b):
                if operand_local(b.term(tb)["args"][0]) in fl and ce is not None and all(rb in b.dominated_by_edge(ce) for rb in recs):
                    consuming.append(bb)
    # (b) ancestor test
    def anc(d):
        return d[0] == "call" and re.search(r"slice::<impl \[.*\]>::contains$|::contains$", d[1]) and not d[1].endswith("contains_key") and "<impl str>" not in d[1] and "str::" not in d[1]
    # (a membership test whose positive outcome does not lead to an error is something else, e.g. a de-duplication spliced in from a helper)
    errs = [bb for (bb, st) in b.aggregates("Result", "Err")]
    et = [e for e in bool_edges(b, anc, True) if any(bb in b.dominated_by_edge(e) for bb in errs)]
    ef = [e for e in bool_edges(b, anc, False) if any(e2.src == e.src for e2 in et)]
    ancestor = False
    if et and ef:
        Gf = set()
        for e in ef:
            Gf |= b.dominated_by_edge(e)
        errs_ok = all(any(bb in b.dominated_by_edge(e) for (bb, st) in b.aggregates("Result", "Err")) for e in et)
        chain_ok = True
        # which parameters are the ancestor chain and the current id: the receiver and the needle of the `contains` test
        anc_params, id_params = set(), set()
        for e in et:
            for d in bool_atom_desc(b, e.label[2]):
                if d[0] == "call" and len(d[2]) > 1:
                    anc_params |= {a for a in d[2][0] if a[0] == "param"}
                    id_params |= {a for a in d[2][1] if a[0] == "param"}
        id_only = id_params - anc_params
        for rb in recs:
            t = b.term(rb)
            at = set()
            for a in t["args"]:
                at |= b.prov.operand_atoms(a)
            # some argument passed down derives from the incoming chain and from the current id
            # the argument passed in the position of the ancestor-chain parameter
            ok_arg = False
            for (_, i) in (anc_params - id_params):
                if i - 1 < len(t["args"]):
                    aat = b.prov.operand_atoms(t["args"][i - 1])
                    if ("param", i) in aat and (id_only & aat):
                        ok_arg = True
            if not (anc_params and id_only and ok_arg):
                chain_ok = False
        ancestor = errs_ok and chain_ok and all(rb in Gf for rb in recs)
        # the ancestor test compares whole target identities (project and name), not one component of them
        for e in et:
            for d in bool_atom_desc(b, e.label[2]):
                if d[0] == "call" and anc(d):
                    ct = b.term(d[3])
                    nl = operand_local(ct["args"][1]) if len(ct["args"]) > 1 else None
                    whole = nl is not None and re.search(r"TargetId$", b.locals[nl]["ty"].replace("&", "").strip()) is not None
                    ctx.check(whole, f"{short(b.name)}/ancestor-identity", [site(b, e.src)],
                              "the cycle test compares only a component of the target identity (e.g. the bare name): same-named targets of different projects are reported as a cycle",
                              props=["C09", "C19"])
    ctx.check(bool(consuming) or ancestor, f"{short(b.name)}/bounded", [site(b, x) for x in consuming] or [b.loc()],
              "neither a consuming removal nor an ancestor test bounds the recursion: a cyclic project makes zinoma recurse without end",
              detail=("consuming-removal " if consuming else "") + ("ancestor-test" if ancestor else ""), props=["C09"])


@rule("C09.ALL-DEPS-VISITED", ["C09", "C13"], """the resolver recurses over the target's full dependency list (declared dependencies plus `X.output` producers), leaving the loop only when the
      list is exhausted or an error is propagated""", "K10", floor=1)
def all_deps_visited(ctx):
    b = resolver(ctx)
    recs = rec_sites(b)
    ok = False
    for (nbb, sbb, ne, se, blks, it_atoms) in for_loops(b):
        if not any(rb in blks for rb in recs):
            continue
        exits = [e for bl in blks for e in b.succ.get(bl, ()) if e.dst not in blks and b.term(e.dst)["k"] != "unreachable"]
        other = [e for e in exits if not (ne is not None and e.src == ne.src and e.dst == ne.dst) and not (e.label and e.label[0] == "variant" and e.label[2] == ("Break",))]
        deps_fns = {x.name for x in ctx.f.user_bodies() if x.name.endswith("Target::dependencies")}
        from_deps = atom_has_field(it_atoms, "dependencies") or bool(atom_callres(it_atoms) & deps_fns)
        restricted = [c for c in atom_callres(it_atoms) if re.search(r"::(take|skip|filter|step_by|take_while|skip_while)$", c)]
        ctx.check(not other and from_deps and not restricted, f"{short(b.name)}/loop", [site(b, nbb)],
                  "the recursion does not range over the whole dependency list (early exit, restricted iterator, or a different list)")
        ok = True
    ctx.need(ok, "loop containing the recursive call")


@rule("C09.OUTPUT-OF-BUILD-ONLY", ["C09", "C13"], """`X.output` is accepted only when X is a build target; any other kind is an error""", "K1", floor=1)
def output_of_build_only(ctx):
    b = resolver(ctx)
    # (a wrapper around it - `extend_input_with_output_of(&producer)`, whose code is in view here - is judged by the call it contains)
    ext = [(bb, t) for bb, t in b.calls() if callee_base(t) in extend_input_fns(ctx.f)[0]]
    ctx.need(ext, "call extending the consumer's input")
    n_ok = 0
    for bb, t in ext:
        # the innermost `Build` edge (of the domain Target enum) that dominates the call: the match on the producer
        be = [e for e in b.edges if e.label and e.label[0] == "variant" and e.label[2] == ("Build",) and path_ends(e.label[1] or "", "domain::Target") and bb in b.dominated_by_edge(e)]
        if not be:
            ctx.bad(f"{short(b.name)}/extend-only-from-build", [site(b, bb)], "the consumer's input is extended outside the `Target::Build` branch")
            continue
        e_b = max(be, key=lambda e: len([x for x in be if e.src in b.dominated_by_edge(x)]))
        ctx.ok(f"{short(b.name)}/extend-only-from-build", [site(b, bb)])
        # the other edges of that very match return Err on every path
        comp = [e for e in b.succ[e_b.src] if e is not e_b and e.label and e.label[0] == "variant"]
        for e in comp:
            blks = b.dominated_by_edge(e)
            errs = [x for (x, st) in b.aggregates("Result", "Err") if x in blks]
            good = bool(errs) and any(_must_pass(b, blks, x) for x in errs)
            n_ok += 1
            ctx.check(good, f"{short(b.name)}/non-build-is-error", [site(b, x) for x in errs] or [b.loc(e.dst)],
                      "`.output` of a service or aggregate target is silently accepted")
    ctx.need(n_ok >= 1, "non-Build branch of the match on the producer")


@rule("C09.UNKNOWN-IS-ERR", ["C09"], """an unknown project or target in a reachable reference is an Err (lookups are `?`-checked, never indexed or unwrapped)""", "K1", floor=2)
def unknown_is_err(ctx):
    b = resolver(ctx)
    lookups = []
    for bb, t in b.calls():
        d = callee_decl(t)
        if re.search(r"HashMap::<std::option::Option<std::string::String>, .*Project\)>::(get|get_mut)(::<.*>)?$", d) or re.search(r"HashMap::<std::string::String, [\w:]*Target>::(remove|get|get_mut)(::<.*>)?$", d):
            lookups.append((bb, t))
    ctx.need(len(lookups) >= 2, "project lookup and target lookup in the resolver")
    for bb, t in lookups:
        fl = b.prov.flows_forward(t["dest"]["local"])
        checked = False
        for (tb, sb, ce, be) in try_edges(b):
            if operand_local(b.term(tb)["args"][0]) in fl and be is not None:
                checked = True
        # unwrapped: applied to the lookup's own result (moves / refs / `as_ref` in between), not to something merely computed from what was found
        unwrapped = [x for x, tt in b.calls() if re.search(r"Option::<.*>::(unwrap|expect)$", callee_decl(tt)) and operand_local(tt["args"][0]) is not None
                     and origin_matches(origins(b, operand_local(tt["args"][0])), lambda o: o[0] == "call" and o[2] == bb, through_fields=False)]
        if not checked:
            # `match lookup { None => return Err(..), Some(x) => x }`
            for e in b.edges:
                if e.label and e.label[0] == "variant" and e.label[2] == ("None",) and e.label[3] and e.label[3]["local"] in fl:
                    blks = b.dominated_by_edge(e)
                    if any(x in blks for (x, st) in b.aggregates("Result", "Err")):
                        checked = True
        ctx.check(checked and not unwrapped, f"{short(b.name)}/{callee_base(t).split('::')[-1]}@{[x[0] for x in lookups].index(bb)}", [site(b, bb)],
                  "a missing project/target is not turned into an error (the lookup is unwrapped or unchecked)")
    idx = [(bb, t) for bb, t in b.calls() if re.search(r"Index<.*>>::index$", callee_decl(t)) and re.search(r"HashMap<std::option::Option<std::string::String>|HashMap<std::string::String, [\w:]*yaml", callee_decl(t))]
    for bb, t in idx:
        ctx.bad(f"{short(b.name)}/index", [site(b, bb)], "the configuration map is indexed: an unknown name panics instead of being reported")


def effect_summary(f, r):
    """body name -> set of effects reachable (fs-delete, fs-write, process-spawn, task-spawn) through local calls (crossing spawns)"""
    direct = {}
    for b in f.user_bodies():
        s = set()
        for bb, t in b.calls():
            base = t["callee"]["base"]
            if is_fs_delete(base):
                s.add("fs-delete")
            if is_fs_write(base):
                s.add("fs-write")
            if is_process_spawn(base):
                s.add("process-spawn")
            if base in TASK_SPAWN:
                s.add("task-spawn")
        direct[b.name] = s
    return direct


@rule("C09.RESOLVE-BEFORE-EFFECTS", ["C09", "C14"], """in main every call that can delete, write, spawn a process or spawn a task is dominated by the successful return of the resolver; loading and
      resolving the configuration have none of these effects""", "K6", floor=2)
def resolve_before_effects(ctx):
    r = ctx.r
    f = ctx.f
    m = r.main_body()
    direct = effect_summary(f, r)
    def effects_of(n):
        out = set()
        for x in f.cg.reach([n]):
            out |= direct.get(x, set())
        return out
    entry = [(bb, t) for bb, t in m.calls() if t["callee"]["local"] and callee_base(t) in f.bodies and re.search(r"Result<std::collections::HashMap<[\w:]*TargetId, [\w:]*Target>", f.bodies[callee_base(t)].ret)]
    ctx.need(len(entry) >= 1 and len({callee_base(t) for _, t in entry}) == 1, "call of the resolver entry point in main")
    # (one call, or one per arm of a `match` over what was requested, their results joined and `?`-checked together)
    fwd = set()
    for ebb, et in entry:
        fwd |= m.prov.flows_forward(et["dest"]["local"])
    conts = [ce for (tb, sb, ce, be) in try_edges(m) if operand_local(m.term(tb)["args"][0]) in fwd and ce is not None]
    ctx.need(conts, "`?` on the resolver's result in main")
    after = set()
    for ce in conts:
        after |= m.dominated_by_edge(ce)
    if len(entry) > 1:
        # each entry call must be checked: every path from it to the end of main passes one of the `?`
        checks = {ce.src for ce in conts}
        ctx.need(all(not any(m.term(x)["k"] == "return" for x in (m.reach_from(ebb, avoid=tuple(checks)) - checks)) for ebb, _ in entry), "`?` on the resolver's result in main")
    n = 0
    for bb, t in m.calls():
        cn = t["callee"]["rbase"] or t["callee"]["base"]
        eff = set()
        if cn in f.bodies:
            eff = effects_of(cn)
        else:
            base = t["callee"]["base"]
            if is_fs_delete(base) or is_fs_write(base) or is_process_spawn(base):
                eff = {"direct"}
            if base in TASK_BLOCK_ON and t["args"] and t["args"][0]["k"] != "const":
                for kind, x, pb in m.prov.direct_producers(t["args"][0]["place"]["local"]):
                    if kind == "agg" and x["rv"].get("coroutine") in f.bodies:
                        eff = effects_of(x["rv"]["coroutine"])
        if eff:
            n += 1
            ctx.check(bb in after, f"main/{short(cn)}", [site(m, bb)], f"a call with effects {sorted(eff)} can run before the configuration was loaded and resolved successfully: a broken project would still delete or run something")
    ctx.need(n >= 1, "effectful call in main")
    # loader/resolver closure is effect-free
    pre = [callee_base(t) for bb, t in m.calls() if bb not in after and callee_base(t) in f.bodies]
    bad = []
    for cn in pre:
        e = effects_of(cn)
        if e:
            bad.append((cn, e))
    ctx.check(not bad, "main/validation-is-pure", [m.loc()], f"configuration loading/resolution has effects: {[(short(c), sorted(e)) for c, e in bad]}", detail=f"{len(pre)} callees before the resolver's `?`")


# ------------------------------------------------------------------ C14
def schema_types(f):
    """ADTs deserialised from the project file: reachable through fields from the type handed to serde_yaml::from_reader"""
    roots = set()
    for b in f.user_bodies():
        for bb, t in b.calls():
            if t["callee"]["base"].startswith("serde_yaml::from_") or t["callee"]["base"].startswith("serde_yaml::de::from_"):
                for g in t["callee"]["gargs"]:
                    for p in f.adts:
                        if p in g:
                            roots.add(p)
    seen = set(roots)
    st = list(roots)
    while st:
        p = st.pop()
        for v in f.adts[p]["variants"]:
            for fl in v["fields"]:
                for q in f.adts:
                    if q in fl["ty"] and q not in seen and not q.endswith("__Field") and "::_::" not in q:
                        seen.add(q)
                        st.append(q)
    return roots, seen


@rule("C14.STRICT", ["C14"], """every type deserialised from the project file rejects unknown keys (its derive-generated field-identifier enum has no `__ignore` variant), and the
      keys discriminating the target kinds are required""", "K4", floor=6)
def strict(ctx):
    f = ctx.f
    roots, types = schema_types(f)
    ctx.need(roots, "type handed to serde_yaml::from_reader")
    ctx.need(len(types) >= 6, f"schema types reachable from the project type (found {len(types)})")
    # __Field enums generated for each type: path contains `<impl ... Deserialize<'de> for T>::deserialize::__Field` (one per struct / per enum variant)
    n = 0
    for ty in sorted(types):
        fields = [a for a in f.adt_list if a["path"].endswith("::__Field") and re.search(r"for " + re.escape(ty) + r">::deserialize(::\w+)*::__Field$", a["path"])]
        named = any(v["fields"] and all(not re.match(r"^\d+$", x["name"]) for x in v["fields"]) for v in f.adts[ty]["variants"])
        if not fields:
            if named:
                ctx.bad(f"{short(ty)}", [f"{f.adts[ty]['file']}:{f.adts[ty]['line']}"], "no derive-generated field identifier found for a schema type with named fields (hand-written Deserialize?): strictness cannot be established")
            continue
        for a in fields:
            n += 1
            vs = [v["name"] for v in a["variants"]]
            ctx.check("__ignore" not in vs, f"{short(ty)}/fields{len(vs) - (1 if '__ignore' in vs else 0)}#{fields.index(a)}", [f"{a['file']}:{a['line']}"],
                      "unknown keys are tolerated (`deny_unknown_fields` is missing): a misspelt key is silently ignored", detail=",".join(vs))
    ctx.need(n >= 6, f"field-identifier enums of the schema types (found {n}, 8 confirmed by hand)")
    # discriminating keys are required: in visit_map of the Target variants, `build`/`service`/`dependencies`(aggregate) absent -> missing_field
    need = {"build": 0, "service": 0}
    for b in f.code_bodies():
        if "visit_map" in b.name and "schema::Target>" in b.name:
            for bb, t in b.calls():
                if t["callee"]["base"].endswith("missing_field"):
                    for a in t["args"]:
                        if a["k"] == "const":
                            for k in need:
                                if f'"{k}"' == a["val"]:
                                    need[k] += 1
    for k, c in need.items():
        ctx.check(c >= 1, f"required-key/{k}", [], f"the key `{k}` that discriminates the target kind is not required (a defaulted key would make every key-less target a {k} target)")


def _field_enum_label(p):
    m = re.search(r"deserialize::(.*)__Field$", p)
    return (m.group(1).strip(":") or "struct") if m else "struct"


def loader_fns(ctx):
    """the function that reads and validates one project file: calls serde_yaml::from_reader"""
    out = [b for b in ctx.f.user_bodies() if any(re.match(r"serde_yaml::(de::)?from_(reader|str|slice)$", t["callee"]["base"]) for _, t in b.calls())]
    ctx.need(out, "project loader (calls serde_yaml)")
    return out


def _locals_read_cfg(body, l, depth=0):
    """locals a (compiler) temporary is computed from: through copies, binops, `Len` and casts"""
    out = set()
    if depth > 6:
        return out
    for kind, x, bb in body.prov.defs.get(l, ()):
        if kind == "assign":
            pl, cs = rv_sources(x["rv"])
            for p in pl:
                out.add(p["local"])
                out |= _locals_read_cfg(body, p["local"], depth + 1)
    return out


@rule("C14.NAME-CHECKS", ["C14"], """a project is accepted only if its name (when present) and all its target names are valid; both failures are errors""", "K1", floor=2)
def name_checks(ctx):
    f = ctx.f
    for b in loader_fns(ctx):
        b = ctx.r.V(b)   # a validation step extracted into a helper (`validate_names(&project)?`) is part of the loader
        validators = {x.name for x in f.user_bodies() if x.ret == "bool" and x.argc == 1 and any(tt["callee"]["base"].endswith("Regex::is_match") for _, tt in x.calls())}
        ctx.need(len(validators) >= 1, "name validators (Regex::is_match)")
        oks = [(bb, st) for (bb, st) in b.aggregates("Result", "Ok") if st["lhs"]["local"] == 0]
        ctx.need(oks, "Ok(project) in the loader")
        # project name: Ok only where (name is None) or validator true
        def pn(d):
            return d[0] == "call" and d[1] in validators
        G_bad = guard_region(b, pn, False)
        calls = calls_in(b, None, lambda n: n in validators)
        ctx.check(bool(calls) and all(bb not in G_bad for bb, st in oks) and any(bb2 in G_bad for (bb2, st2) in b.aggregates("Result", "Err")), f"{short(b.name)}/project-name",
                  [site(b, c[0]) for c in calls] or [b.loc()], "an invalid project name does not make the loader fail")
        # target names: find(!valid) -> Some => Err ; the closure calls a validator
        finders = []
        for bb, t in b.calls():
            if re.search(r"Iterator>::(find|any|all|position)(::<.*>)?$", callee_decl(t)):
                at = b.prov.operand_atoms(t["args"][0])
                clos = [a[1] for a in b.prov.operand_atoms(t["args"][1]) if a[0] == "closure"] if len(t["args"]) > 1 else []
                if any(validators & f.cg.reach([c]) for c in clos) and atom_has_field(at, "targets"):
                    finders.append((bb, t))
        good = False
        for bb, t in finders:
            Rsome = set()
            for e in b.edges:
                if e.label and e.label[0] == "variant" and e.label[2] == ("Some",) and origin_matches(edge_origin(b, e), lambda o: o[0] == "call" and o[2] == bb):
                    Rsome |= b.dominated_by_edge(e)
            G_any = guard_region(b, lambda d: d[0] == "call" and d[3] == bb, True) | guard_region(b, lambda d: d[0] == "call" and d[3] == bb, False)
            if any(x in Rsome or x in G_any for (x, st) in b.aggregates("Result", "Err")) and not any(x in Rsome for x, st in oks):
                good = True
        if not good:
            # `let invalid: Vec<_> = names.filter(|n| !valid(n)).collect(); match invalid[..] { [] => Ok, .. => Err }`: an Err controlled by the filtered collection
            for bb, t in b.calls():
                if re.search(r"Iterator>::(filter|filter_map)(::<.*>)?$", callee_decl(t)) and len(t["args"]) > 1:
                    at = b.prov.operand_atoms(t["args"][0])
                    clos = [a[1] for a in b.prov.operand_atoms(t["args"][1]) if a[0] == "closure"]
                    if not (any(validators & f.cg.reach([c]) for c in clos) and atom_has_field(at, "targets")):
                        continue
                    finders.append((bb, t))
                    fl = b.prov.flows_forward(t["dest"]["local"])
                    for e in b.edges:
                        l = e.label
                        tested = l[2] if l and l[0] in ("bool", "val", "val-otherwise") else (l[3]["local"] if l and l[0] == "variant" and l[3] else None)
                        if tested is None:
                            continue
                        if (tested in fl or any(x in fl for x in _locals_read_cfg(b, tested))) and any(x in b.dominated_by_edge(e) for (x, st) in b.aggregates("Result", "Err")) \
                                and not any(x in b.dominated_by_edge(e) for x, st in oks):
                            good = True
        ctx.check(good, f"{short(b.name)}/target-names", [site(b, x[0]) for x in finders] or [b.loc()], "an invalid target name does not make the loader fail")


@rule("C14.IMPORT-NAME", ["C14"], """an imported project must have a name and be imported under exactly that name; import recursion stops at already loaded directories""", "K1", floor=2)
def import_name(ctx):
    f = ctx.f
    # the recursive project adder: self-recursive local fn over HashMap<PathBuf, Project>
    adders = [ctx.r.V(b) for b in ctx.r.outermost([b for b in f.user_bodies() if b.kind in ("Fn", "AssocFn") and ctx.r.recursive_in_view(b) and
                                                    any(re.search(r"HashMap<std::path::PathBuf, [\w:]*Project>", l["ty"]) for l in b.locals[1:b.argc + 1])])]
    ctx.need(adders, "recursive project loader")
    for b in adders:
        def loaded(d):
            return d[0] == "call" and d[1].endswith("::contains_key")
        et = bool_edges(b, loaded, True)
        ef = bool_edges(b, loaded, False)
        # ... or `if let Some(p) = projects.get(&dir) { return .. }`
        def is_map_get(o):
            return o[0] == "call" and re.search(r"HashMap::<std::path::PathBuf, [\w:]*Project>::get(::<.*>)?$", callee_decl(o[3])) is not None
        for e in b.edges:
            if e.label and e.label[0] == "variant" and origin_matches(edge_origin(b, e), is_map_get):
                if e.label[2] == ("Some",):
                    et.append(e)
                elif e.label[2] == ("None",):
                    ef.append(e)
        recs = rec_sites(b)
        # recursion may sit in a closure of this fn (and_then): look at calls in nested closures too
        nested = [x for x in f.cg.reach([b.name], cross_spawn=False) if x.startswith(b.name + "::") or (x != b.name and x in ctx.r.origins_of_view(f.bodies[b.name]))]
        G = set()
        for e in ef:
            G |= b.dominated_by_edge(e)
        ctx.check(bool(et) and bool(ef) and all(rb in G for rb in recs) and bool(recs), f"{short(b.name)}/visited-test", [site(b, x) for x in recs] or [b.loc()],
                  "the import recursion is not cut by an 'already loaded' test: an import cycle recurses forever")
        # name checks: in this fn or its closures, the None edge of `name` and the `name != import_name` true edge give Err
        bodies = [b] + [ctx.r.V(f.bodies[x]) for x in nested]   # views: a check extracted into a helper called from the closure is part of it
        none_err = ne_err = False
        behind = []
        # the import-name checks belong to the import *edge*: they must run after the recursive load of the imported directory, inside the loop over the
        # imports (then they also run when that directory was already loaded). A check placed elsewhere in the adder sits behind the early return.
        loops = b.natural_loops()
        rec_loops = [blks for (h, blks, ex) in loops if any(rb in blks for rb in recs)]
        after_rec = set()
        for rb in recs:
            after_rec |= b.reach_from(rb)
        def on_import_edge(bb):
            return bb in after_rec and any(bb in blks for blks in rec_loops)
        for x in [b]:
            for e in x.edges:
                is_name_check = e.label and ((e.label[0] == "variant" and e.label[2] == ("None",) and origin_matches(edge_origin(x, e), lambda o: o[0] == "field" and "name" in o[1])) or
                                             (e.label[0] == "bool" and e.label[2] is not None and any(d[0] == "call" and ("::ne" in d[1] or d[1].endswith("::eq")) and any(atom_has_field(a, "name") for a in d[2]) for d in bool_atom_desc(x, e.label[2]))))
                if is_name_check and any(bb in x.dominated_by_edge(e) for (bb, st) in x.aggregates("Result", "Err")):
                    if not on_import_edge(e.src):
                        behind.append(e)
        for x in bodies:
            for e in x.edges:
                if e.label and e.label[0] == "variant" and e.label[2] == ("None",) and e.label[3] and ("name" in place_fields(e.label[3]) or origin_matches(edge_origin(x, e), lambda o: o[0] == "field" and "name" in o[1])):
                    blks = x.dominated_by_edge(e)
                    if any(bb in blks for (bb, st) in x.aggregates("Result", "Err")):
                        none_err = True
            def neq(d):
                return d[0] == "call" and (d[1].endswith("PartialEq>::ne") or d[1].endswith("PartialEq<&B>>::ne") or "::ne" in d[1])
            for e in bool_edges(x, neq, True):
                if any(bb in x.dominated_by_edge(e) for (bb, st) in x.aggregates("Result", "Err")):
                    ne_err = True
            def eq(d):
                return d[0] == "call" and d[1].endswith("::eq")
            for e in bool_edges(x, eq, False):
                if any(bb in x.dominated_by_edge(e) for (bb, st) in x.aggregates("Result", "Err")):
                    ne_err = True
        if behind:
            # the checks are not on the import edge inside the loop: then the adder itself must apply them on *every* way it can return Ok (it is entered
            # once per import edge) - also on the early return for an already loaded directory
            check_blocks = {e.src for e in behind}
            free = b.reach_from(0, avoid=tuple(check_blocks)) | {0}
            ok_returns = [bb for (bb, st) in b.aggregates("Result", "Ok") if (st["lhs"]["local"] == 0 or 0 in b.prov.flows_forward(st["lhs"]["local"]))
                          and b.locals[st["lhs"]["local"]]["ty"] == b.locals[0]["ty"]]
            # not an import edge at all: the `None` case of an optional parameter of the adder (the root project is loaded without an import key)
            not_import = set()
            for e in b.edges:
                if e.label and e.label[0] == "variant" and e.label[2] == ("None",) and e.label[3]:
                    on = e.label[3]
                    os_ = origins(b, on["local"])
                    pj = [pr for pr in on["proj"] if pr["k"] != "deref"]
                    if pj and pj[0]["k"] == "field" and pj[0].get("idx") is not None:
                        # a component of a tuple built for a `match (a, b)`: the origins of that component
                        os_ = [x for o in os_ if o[0] == "tuple" and pj[0]["idx"] < len(o[1]) for x in o[1][pj[0]["idx"]]]
                        pj = pj[1:]
                    if not pj and any(o[0] == "param" and b.locals[o[1]]["ty"].startswith("std::option::Option<") for o in os_):
                        not_import |= b.dominated_by_edge(e)
            ok_returns = [bb for bb in ok_returns if bb not in not_import]
            if ok_returns and not [bb for bb in ok_returns if bb in free and bb not in check_blocks]:
                behind = []
        # every import edge goes through the recursive load (to which the checks are chained): an iteration of the loop over the imports cannot
        # `continue` past it (e.g. "already loaded, skip")
        from rules_c01 import _must_pass
        skipped = []
        for rb in recs:
            for (h, blks, ex) in loops:
                if rb not in blks:
                    continue
                # the body of one iteration: what the `Some(item)` edge of the iterator's `next` dominates inside the loop
                for e in b.edges:
                    if e.src in blks and e.label and e.label[0] == "variant" and e.label[2] == ("Some",) and origin_matches(edge_origin(b, e), lambda o: o[0] == "call" and o[1].endswith("Iterator>::next") or (o[0] == "call" and o[1].endswith("::next"))):
                        body_blks = b.dominated_by_edge(e) & blks
                        if rb in body_blks and not _must_pass(b, body_blks, rb):
                            # the load may be skipped for a directory that is already loaded as long as the *checks* are not: a call in the iteration that
                            # carries them (`.and_then(|_| check..)` with a closure, or a helper, whose code tests the project's name) is passed every time
                            def carries_checks(t_):
                                cands_ = [x_ for x_ in closure_bodies_passed(b, t_)] + ([ctx.r.V(f.bodies[callee_base(t_)])] if callee_base(t_) in f.bodies else [])
                                for cb_ in cands_:
                                    for x_ in [cb_] + [ctx.r.V(f.bodies[y_]) for y_ in sorted(f.cg.reach([cb_.name], cross_spawn=False)) if y_ in f.bodies and not f.is_derived(f.bodies[y_])]:
                                        for e2 in x_.edges:
                                            if e2.label and e2.label[0] == "variant" and e2.label[2] == ("None",) and e2.label[3] and ("name" in place_fields(e2.label[3]) or origin_matches(edge_origin(x_, e2), lambda o: o[0] == "field" and "name" in o[1])) \
                                                    and any(bb_ in x_.dominated_by_edge(e2) for (bb_, _) in x_.aggregates("Result", "Err")):
                                                return True
                                return False
                            carriers = [cb_ for cb_, t_ in b.calls() if cb_ in body_blks and cb_ != rb and carries_checks(t_)]
                            if any(_must_pass(b, body_blks, cb_) for cb_ in carriers):
                                continue
                            skipped.append(rb)
        ctx.check(not skipped, f"{short(b.name)}/every-import-loaded-and-checked", [site(b, x) for x in skipped] or [b.loc()],
                  "an iteration of the loop over the imports can skip the recursive load and the name checks chained to it: a project reached a second time under a wrong key is accepted")
        ctx.check(not behind, f"{short(b.name)}/checked-on-every-import-edge", [site(b, e.src) for e in behind[:2]] or [b.loc()],
                  "the import-name checks sit behind the 'already loaded' early return: a project reached a second time (import cycle, diamond) under a wrong key is accepted, and the verdict depends on iteration order")
        ctx.check(none_err, f"{short(b.name)}/unnamed-import", [b.loc()], "an imported project without a name is accepted")
        ctx.check(ne_err, f"{short(b.name)}/import-key-matches-name", [b.loc()], "a project imported under a key different from its own name is accepted")


@rule("C14.UNIQUE", ["C14"], """project names are unique: the name-keyed project map is built only after a duplicate-name test whose failure is an error (or by checked insertion)""", "K4", floor=1)
def unique(ctx):
    f = ctx.f
    # construction sites of the name-keyed map: collect/from_iter/extend/insert into HashMap<Option<String>, (PathBuf, Project)>
    cons = []
    for b in f.user_bodies():
        for bb, t in b.calls():
            d = callee_decl(t)
            if re.search(r"HashMap<std::option::Option<std::string::String>, \([\w:]*PathBuf, [\w:]*Project\)>", d) and re.search(r"::(collect|from_iter|extend|insert)(::<.*>)?$|>::collect::<", d):
                cons.append((b, bb, t))
            elif re.search(r"HashMap::<std::option::Option<std::string::String>, \([\w:]*PathBuf, [\w:]*Project\)>::entry$", d):
                cons.append((b, bb, t))   # filled through the entry API
    ctx.need(cons, "construction of the name-keyed project map")
    # idiom (b): a duplicate test in the loader: HashSet::insert on project names whose false edge errors, dominating the acceptance of the loaded set
    dup_tests = []
    for b in [ctx.r.V(x) for x in ctx.r.roots()]:
        for e in b.edges:
            if e.label and e.label[0] == "bool" and e.label[2] is not None:
                for d in bool_atom_desc(b, e.label[2]):
                    inner = d[1] if d[0] == "not" else (d,)
                    pol_err = (e.label[1] is False) if d[0] != "not" else (e.label[1] is True)
                    for x in inner:
                        if x[0] == "call" and re.search(r"HashSet::<.*>::insert$|HashSet::<T, S>::insert$|BTreeSet::<.*>::insert$", x[1]) and len(x[2]) > 1 and atom_has_field(x[2][1], "name") and pol_err:
                            blks = b.dominated_by_edge(e)
                            if any(bb in blks for (bb, st) in b.aggregates("Result", "Err")):
                                dup_tests.append((b, e))
                        if x[0] == "binop" and x[1] in ("Ne", "Lt", "Gt") and any(o[0] == "call" and o[1].endswith("::len") for s in (x[2], x[3]) for o in s if isinstance(o, tuple)):
                            blks = b.dominated_by_edge(e)
                            if e.label[1] is True and any(bb in blks for (bb, st) in b.aggregates("Result", "Err")):
                                dup_tests.append((b, e))
    # idiom (c): every project is registered under its name as it is loaded - in the function that calls the project loader, a checked insertion keyed by the
    # loaded project's `name` (a previous entry is an error) that every project with a name passes before the load can succeed
    loaders = {x.name for x in f.user_bodies() if x.kind in ("Fn", "AssocFn") and re.search(r"Result<[\w:]*Project,", x.ret)}
    for lb in f.user_bodies():
        if not any(callee_base(t_) in loaders for _, t_ in lb.calls()):
            continue
        for ibb, it in lb.calls():
            if not re.search(r"(HashMap|BTreeMap|HashSet|BTreeSet)::<.*>::insert$", callee_decl(it)) or len(it["args"]) < 2:
                continue
            kat = lb.prov.operand_atoms(it["args"][1], interproc=False)
            if not (atom_has_field(kat, "name") and atom_callres(kat) & loaders):
                continue
            is_map = "Map" in callee_decl(it)
            checked = _result_checked(lb, it) if is_map else any(
                e.label and e.label[0] == "bool" and e.label[1] is False and e.label[2] is not None and e.label[2] in lb.prov.flows_forward(it["dest"]["local"]) and
                any(bb_ in lb.dominated_by_edge(e) for (bb_, _) in lb.aggregates("Result", "Err")) for e in lb.edges)
            # every named project: the insertion is passed on every path of the `Some(name)` side of the test of the loaded project's name (or is unconditional)
            somes = [e for e in lb.edges if e.label and e.label[0] == "variant" and e.label[2] == ("Some",) and ibb in lb.dominated_by_edge(e) and
                     origin_matches(edge_origin(lb, e), lambda o: o[0] == "field" and "name" in o[1])]
            load_bbs = [cb_ for cb_, t_ in lb.calls() if callee_base(t_) in loaders]
            oks = [bb_ for (bb_, st_) in lb.aggregates("Result", "Ok") if (st_["lhs"]["local"] == 0 or 0 in lb.prov.flows_forward(st_["lhs"]["local"])) and lb.locals[st_["lhs"]["local"]]["ty"] == lb.locals[0]["ty"]]
            every = False
            for e in somes or [None]:
                R_ = lb.dominated_by_edge(e) if e is not None else None
                test_bb = e.src if e is not None else ibb
                # the test (or the insertion itself) is passed by every successful load: no way from the loader call to an Ok return that avoids it
                avoids = any(ok_ in (lb.reach_from(l_, avoid=(test_bb,)) | {l_}) for l_ in load_bbs for ok_ in oks if ok_ != test_bb)
                inside = R_ is None or _must_pass_region(lb, R_, ibb)
                if not avoids and inside:
                    every = True
            if checked and every:
                dup_tests.append((lb, None))
    # idiom (d): the first name that is seen twice, looked for with `find(|name| !seen.insert(name))` (or `any`), and an error when there is one
    for lb in [ctx.r.V(x) for x in ctx.r.roots()]:
        for fbb, ft in lb.calls():
            if not re.search(r"Iterator>?::(find|any|position)(::<.*>)?$", callee_decl(ft)) or not atom_has_field(lb.prov.operand_atoms(ft["args"][0]), "name"):
                continue
            neg_insert = False
            for cb_ in closure_bodies_passed(lb, ft):
                ros = [o for p_ in enumerate_paths(cb_) for o in ret_origins(cb_, p_)]
                if ros and all(o[0] == "not" and any(x[0] == "call" and re.search(r"(HashSet|BTreeSet)::<.*>::insert$", callee_decl(x[3])) for x in o[1]) for o in ros):
                    neg_insert = True
            if not neg_insert:
                continue
            fl_ = lb.prov.flows_forward(ft["dest"]["local"])
            for e in lb.edges:
                hit = e.label and ((e.label[0] == "variant" and e.label[2] == ("Some",) and e.label[3] and e.label[3]["local"] in fl_) or
                                   (e.label[0] == "bool" and e.label[1] is True and e.label[2] in fl_))
                if hit and any(bb_ in lb.dominated_by_edge(e) for (bb_, _) in lb.aggregates("Result", "Err")):
                    # the passing side is the complement: the edge that leaves the test without the error
                    others = [e2 for e2 in lb.succ.get(e.src, ()) if e2 is not e]
                    for e2 in others:
                        dup_tests.append((lb, e2))
    for (b, bb, t) in cons:
        checked_insert = callee_decl(t).endswith("::insert") and any(True for _ in [0] if _result_checked(b, t))
        if callee_decl(t).endswith("::entry"):
            # `match map.entry(name) { Vacant(e) => e.insert(..), Occupied(_) => return Err(..) }`
            fl_ = b.prov.flows_forward(t["dest"]["local"])
            checked_insert = any(e.label and e.label[0] == "variant" and e.label[2] == ("Occupied",) and e.label[3] and e.label[3]["local"] in fl_ and
                                 any(bb_ in b.dominated_by_edge(e) for (bb_, _) in b.aggregates("Result", "Err")) for e in b.edges)
        # the test must sit on the path that produces the yaml::Config consumed here: in the loader (caller-side dominance is established by types: the map is
        # built from yaml::Config, which only the loader constructs)
        loader_tests = [(tb, e) for (tb, e) in dup_tests if e is None or _constructs_after(ctx, tb, e)]
        ctx.check(checked_insert or bool(loader_tests), f"{short(b.name)}", [site(b, bb)] + [(site(tb, e.src) if e is not None else tb.loc()) for tb, e in loader_tests[:1]],
                  "projects are collected into a map keyed by project name without any duplicate-name test: two projects with the same name overwrite each other in hash order")


def _must_pass_region(b, region, bb):
    from rules_c01 import _must_pass
    return _must_pass(b, region, bb)


def _result_checked(b, t):
    fl = b.prov.flows_forward(t["dest"]["local"])
    for e in b.edges:
        if e.label and e.label[0] == "variant" and e.label[2] == ("Some",) and e.label[3] and e.label[3]["local"] in fl:
            if any(bb in b.dominated_by_edge(e) for (bb, st) in b.aggregates("Result", "Err")):
                return True
    return False


def _constructs_after(ctx, tb, e):
    """the duplicate test's passing side dominates the construction of the loaded configuration (yaml::Config) in the same body"""
    cons = [bb for (bb, st) in tb.aggregates("Config") if "yaml" in st["rv"]["adt"]]
    if not cons:
        return False
    # every construction must be unreachable from the error side and the test must be on all paths to it: the test's loop header dominates it
    return all(tb.dominates(e.src, c) or any(tb.dominates(h, c) and e.src in blks for (h, blks, ex) in tb.natural_loops()) for c in cons)


C14_SCOPE_NOTE = "loader, From<yaml::Config>, name listing, name parsing, resolver, and main up to the resolver call"


def _under_regex_match(b, bb):
    for e in b.edges:
        if e.label and e.label[0] == "variant" and e.label[2] == ("Some",) and origin_matches(edge_origin(b, e), lambda o: o[0] == "call" and o[1].endswith("Regex::captures")):
            if bb in b.dominated_by_edge(e):
                return True
    # `let caps = RE.captures(s)?` / `RE.captures(s).ok_or_else(..)?`: the Continue edge of the `?` is the match
    for (tb, sb, ce, be) in try_edges(b):
        if ce is not None and b.term(tb)["args"] and operand_local(b.term(tb)["args"][0]) is not None \
                and origin_matches(origins(b, operand_local(b.term(tb)["args"][0])), lambda o: o[0] == "call" and o[1].endswith("Regex::captures")) and bb in b.dominated_by_edge(ce):
            return True
    return False


def justified_panic_site(ctx, b, bb, kind, detail, roles):
    """reason why a panic-capable site on the configuration path cannot fire, or None. The justifications are semantic facts about the site (what is
    unwrapped/indexed, under which guard, in which role), not function names or positions."""
    t = b.term(bb)
    args = t["args"] if t["k"] == "call" else []
    at0 = b.prov.operand_atoms(args[0]) if args else set()
    in_resolver = any(b.name == v.name or b.name in roles["resolver_origins"] for v in roles["resolvers"])
    in_loader = b.name in roles["loader_reach"]
    if kind == "unwrap" and "Result::<regex::Regex" in detail and any(c.endswith("Regex::new") for c in atom_callres(at0)) and any(x.startswith('"') for x in atom_consts(at0)):
        return "constant regex literal (its validity is a fact of the source; the literal itself is judged by C14.NAME-REGEX)"
    if kind == "unwrap" and "Option::<regex::Match" in detail and _under_regex_match(b, bb):
        return "group 1 exists whenever the constant regex matched"
    if kind == "index" and "regex::Captures" in detail and "Index<usize>" in detail and _under_regex_match(b, bb) and len(args) > 1 and const_val(args[1]) in ("0_usize", "1_usize", "0", "1"):
        return "group 1 exists whenever the constant regex matched (the literal itself is judged by C14.NAME-REGEX)"
    if kind == "unwrap" and re.search(r"Result::<[\w:]*TargetId", detail) and _under_regex_match(b, bb) and any(c in roles["parsers"] for c in atom_callres(at0)):
        return "the regex guarantees at most one `::` in the captured name, so the parser cannot fail"
    if kind == "index" and re.search(r"HashMap<[\w:]*TargetId, [\w:]*Target> as std::ops::Index", detail) and in_resolver:
        return "the producer was resolved by the preceding loop over the dependencies (which include it)"
    if kind == "unwrap" and "Result::<(), anyhow::Error>::unwrap" in detail and any(is_extend_input(b.facts, c) for c in atom_callres(at0)):
        # only justified inside the Build branch of the match on the producer
        be = [e for e in b.edges if e.label and e.label[0] == "variant" and e.label[2] == ("Build",) and bb in b.dominated_by_edge(e)]
        if be:
            return "extend_input only fails for aggregates; the producer matched `Target::Build`"
    if kind == "unwrap" and "Option::<&std::string::String>::unwrap" in detail and atom_has_field(at0, "project_name", "TargetId"):
        return "only evaluated to word the 'project does not exist' error: the lookup under `None` (the root project) cannot fail, so the name is Some"
    if kind == "index" and re.search(r"HashMap<std::path::PathBuf, [\w:]*Project> as std::ops::Index", detail) and (in_loader or "From<config::yaml::Config>" in b.name):
        return "the directory was inserted by the loader before (root directory first; an import right after its recursive load returned Ok)"
    if kind == "index" and re.search(r"HashMap<std::option::Option<std::string::String>", detail) and atom_has_field(b.prov.operand_atoms(args[1]) if len(args) > 1 else set(), "root_project_name") | any(a[0] == "param" for a in (b.prov.operand_atoms(args[1]) if len(args) > 1 else set())):
        return "indexed with the root project's own name only (the root project is always loaded)"
    if kind == "index" and "std::ops::Index<std::ops::RangeFull>" in detail:
        return "full-range slice: cannot fail"
    if b.name == "main":
        if kind == "unwrap" and "log::SetLoggerError" in detail:
            return "the logger is initialised exactly once, at start-up"
        if kind == "unwrap" and "Option::<&str>::unwrap" in detail and any(a[0] in ("static", "constdef") and a[1].endswith("PROJECT_DIR") for x in args for a in b.prov.operand_atoms(x)) | any(c.endswith("ArgMatches::value_of") for c in atom_callres(at0)):
            return "clap default value for --project"
        if kind == "unwrap" and re.search(r"Result::<std::vec::Vec<[\w:]*TargetId>, anyhow::Error>::unwrap", detail):
            return "clap restricts the requested names to the offered (valid) names"
        if kind == "assert" and "Overflow(Add" in detail:
            return "verbosity = number of -v flags + 2: cannot overflow a usize (debug builds only)"
    return None


@rule("C14.NO-PANIC", ["C14"], """no unjustified panic-capable site on the configuration path (loader, conversion, name listing, name parsing, resolver, main up to the resolver): every
      unwrap/expect/index/assert there is justified by a semantic fact of the site (what is unwrapped, under which guard, in which role)""", "K9", floor=8)
def no_panic_config(ctx):
    r = ctx.r
    f = ctx.f
    m = r.main_body()
    roots = set()
    entry = [(bb, t) for bb, t in m.calls() if t["callee"]["local"] and callee_base(t) in f.bodies and re.search(r"Result<std::collections::HashMap<[\w:]*TargetId, [\w:]*Target>", f.bodies[callee_base(t)].ret) and m.origin(bb) == m.name]
    ctx.need(len(entry) >= 1 and len({callee_base(t) for _, t in entry}) == 1, "resolver entry in main")
    pre_blocks = set()
    for ebb, _ in entry:
        pre_blocks |= m.reach_to(ebb) | {ebb}
    for bb, t in m.calls():
        if bb in pre_blocks:
            cn = t["callee"]["rbase"] or t["callee"]["base"]
            if cn in f.bodies:
                roots.add(cn)
    for x in f.cg.edges.get(m.name, ()):
        if "From<config::yaml::Config>" in x:
            roots.add(x)
    scope = {x for x in f.cg.reach(roots) if x in f.bodies and not f.is_derived(f.bodies[x])}
    ctx.need(len(scope) >= 20, f"bodies on the configuration path (found {len(scope)})")
    loaders = loader_fns(ctx)
    loader_roots = {b.name for b in f.user_bodies() if any(l.name in f.cg.reach([b.name]) for l in loaders) and b.name in scope} | {l.name for l in loaders}
    roles = {"resolvers": r.resolvers(), "resolver_origins": set().union(*[r.origins_of_view(f.bodies[v.name]) for v in r.resolvers()]) if r.resolvers() else set(),
             "loader_reach": f.cg.reach(loader_roots), "parsers": {p.name for p in parse_fns(ctx)} | {b.name for b in f.user_bodies() if any(p.name in f.cg.edges.get(b.name, ()) for p in parse_fns(ctx))}}
    sites = []
    for x in sorted(scope):
        b = f.bodies[x]
        for (bb, kind, detail, ext) in panic_sites(f, b):
            if ext and kind == "panic":
                continue
            sites.append((x, b, bb, kind, detail))
    for (bb, kind, detail, ext) in panic_sites(f, m):
        if m.origin(bb) != m.name:
            continue  # code of a spliced-in callee: examined as that callee's own body (it is in the call-graph closure)
        if bb in pre_blocks and not (ext and kind == "panic"):
            sites.append(("main", m, bb, kind, detail))
    for (x, b, bb, kind, detail) in sites:
        lab = short(x)
        # guards may sit in the caller when the site was extracted into a helper: judge the site in the root view that contains it
        # (a helper spliced into several callers is judged in each of them: every copy must be justified)
        copies = []
        if x != "main":
            for root in r.containers(b):
                rv = r.V(root)
                copies += [(rv, nb) for nb in ([bb] if root.name == b.name else rv.locate_all(b.name, bb))]
        copies = copies or [(b, bb)]
        whys = [justified_panic_site(ctx, vb, vbb, kind, detail, roles) or (justified_panic_site(ctx, b, bb, kind, detail, roles) if vb is not b else None) for (vb, vbb) in copies]
        why = whys[0] if all(whys) else None
        if why:
            ctx.ok(f"{lab}/{kind}@{_site_ord(sites, x, bb, kind)}", [site(b, bb)], why)
        else:
            ctx.bad(f"{lab}/{kind}/{_detail_key(detail)}", [site(b, bb)], f"panic-capable `{kind}` on the configuration path without a known justification ({detail}): some configuration could make zinoma panic")


def _site_ord(sites, x, bb, kind):
    same = sorted(s[2] for s in sites if s[0] == x and s[3] == kind)
    return same.index(bb)


def _detail_key(d):
    m = re.search(r"(Option|Result|HashMap|Vec|Index)[^ ]{0,40}", d)
    return re.sub(r"[^A-Za-z0-9]+", "-", m.group(0))[:40] if m else "site"


# ------------------------------------------------------------------ C19
def parse_fns(ctx):
    """the name parser: innermost local fn(&str, &Option<String>) -> Result<TargetId> whose view splits the name and constructs a TargetId"""
    r = ctx.r
    cands = []
    for b in ctx.f.user_bodies():
        if b.argc == 2 and b.locals[1]["ty"] == "&str" and "Option<std::string::String>" in b.locals[2]["ty"] and re.search(r"Result<[\w:]*TargetId", b.ret):
            v = r.V(b)
            if list(v.aggregates("TargetId")) and any(re.search(r"str>::split|::split(::<.*>)?$", callee_base(t)) for _, t in v.calls()):
                cands.append(b)
    out = [r.V(b) for b in r.minimal(cands)]
    ctx.need(out, "name parser fn(&str, &Option<String>) -> Result<TargetId> (splits the name, builds a TargetId)")
    return out


@rule("C19.DEFAULT-TO-CURRENT", ["C19"], """a bare name resolves to the current project; `a::b` resolves to project `a`; more segments are an error""", "K5", floor=2)
def default_to_current(ctx):
    for b in parse_fns(ctx):
        sites = list(b.aggregates("TargetId"))
        ctx.need(sites, "construction of TargetId in the parser")
        # the possible sources of the id's project: per path reaching a construction, the local that supplies `project_name` on that path
        from_cur, from_seg, odd = [], [], []
        seen_src = set()
        for (bb, st) in sites:
            pop = agg_field_op(st, "project_name")
            l = operand_local(pop)
            if l is None:
                odd.append(bb)
                continue
            for p in enumerate_paths(b, stop_at={bb}):
                if not p or p[-1].dst != bb:
                    continue
                blocks = [0] + [e.dst for e in p]
                src = path_source_local(b, blocks, l, len(blocks) - 1)
                if (bb, src) in seen_src:
                    continue
                seen_src.add((bb, src))
                at = b.prov.atoms(src)
                sb = next((d[2] for d in b.prov.defs.get(src, ()) if d[0] in ("assign", "call")), bb)
                if ("param", 2) in at and ("param", 1) not in at:
                    from_cur.append(sb)
                elif ("param", 1) in at and ("param", 2) not in at and ("Some" in atom_aggs(at, "Option") or any(c.endswith("::map") for c in atom_callres(at))):
                    from_seg.append(sb)
                else:
                    odd.append(sb)
        for x in odd:
            ctx.bad(f"{short(b.name)}/project@{x}", [site(b, x)], "the project of a parsed name derives from neither the current project alone nor the first segment alone")
        ctx.check(len(from_cur) == 1, f"{short(b.name)}/bare-name", [site(b, x) for x in from_cur] or [b.loc()], "a bare name is not resolved in the current project")
        ctx.check(len(from_seg) == 1, f"{short(b.name)}/qualified-name", [site(b, x) for x in from_seg] or [b.loc()], "a qualified name does not take its project from its first segment")
        errs = [bb for (bb, st) in b.aggregates("Result", "Err") if st["lhs"]["local"] == 0]
        ctx.check(bool(errs), f"{short(b.name)}/too-many-segments", [site(b, x) for x in errs] or [b.loc()], "a name with more than one `::` is not rejected")
        if from_cur and from_seg:
            def len_of(bb):
                vals = set()
                for e in b.edges:
                    if e.label and e.label[0] in ("val", "bool") and bb in b.dominated_by_edge(e):
                        for o in origins(b, e.label[2]) if e.label[2] is not None else []:
                            if o[0] == "binop" and o[1] == "Eq":
                                for s_ in (o[2], o[3]):
                                    for y in s_:
                                        if y[0] == "const":
                                            vals.add(y[1])
                        if e.label[0] == "val":
                            vals.add(str(e.label[1]))
                return vals
            lc, ls = len_of(from_cur[0]), len_of(from_seg[0])
            if lc or ls:
                # the slice-pattern idiom: the arms are told apart by the number of segments
                ctx.check(any(v.startswith("1") for v in lc) and any(v.startswith("2") for v in ls), f"{short(b.name)}/arms", [site(b, from_cur[0]), site(b, from_seg[0])],
                          f"the one-segment and two-segment arms are swapped or not distinguished by length (bare under len in {sorted(lc)}, qualified under len in {sorted(ls)})")
            else:
                # the iterator idiom (`match (parts.next(), parts.next(), ..)`) or `name.split_once("::")`: the bare arm is where no further segment / no separator is found (None), the qualified one where one is (Some)
                def second_is(bb, want):
                    return any(e.label and e.label[0] == "variant" and e.label[2] == (want,) and bb in b.dominated_by_edge(e) and
                               origin_matches(edge_origin(b, e), lambda o: o[0] == "call" and re.search(r"::(next|split_once|rsplit_once|find|rfind|nth)$", o[1]) is not None) for e in b.edges)
                ctx.check(second_is(from_cur[0], "None") and second_is(from_seg[0], "Some"), f"{short(b.name)}/arms", [site(b, from_cur[0]), site(b, from_seg[0])],
                          "the bare-name arm is not the one where no further segment exists (or the qualified arm not the one where one exists)")


def _rv_atoms(b, rv):
    if rv.get("k") == "call":
        t = rv["t"]
        out = set()
        if t["callee"]:
            out.add(("callres", callee_base(t)))
        for a in t["args"]:
            out |= b.prov.operand_atoms(a)
        return out
    out = set()
    pl, cs = rv_sources(rv)
    if rv["k"] == "agg" and "adt" in rv:
        out.add(("agg", rv["adt"], rv["variant"]))
    for c in cs:
        out |= const_atoms(c)
    for p in pl:
        out |= b.prov.place_atoms(p)
    return out


@rule("C19.CALLERS", ["C19", "C09", "C13"], """the `current project` given to the name parser is the root project's name in main, and the declaring target's own project inside project files""", "K5", floor=3)
def callers(ctx):
    r = ctx.r
    f = ctx.f
    ps = parse_fns(ctx)
    names = {p.name for p in ps}
    m = r.main_body()
    entry = [callee_base(t) for bb, t in f.bodies[m.name].calls() if t["callee"]["local"] and callee_base(t) in f.bodies and re.search(r"Result<std::collections::HashMap<[\w:]*TargetId, [\w:]*Target>", f.bodies[callee_base(t)].ret)]
    ctx.need(entry, "resolver entry in main")
    in_files = f.cg.reach(entry, cross_spawn=False) | set(entry)    # code that interprets project files
    # what a function hands to the parser as `current project`, in terms of the function itself: 'root' (the configuration's root project name),
    # 'own' (the project of a target id), or ('param', i) (passed through from its own i-th parameter: a wrapper)
    summary = {p.name: ("param", 2) for p in ps}
    sites = {}   # (raw body name, bb) -> (kind, callee)

    def kind_of(b, op):
        at = b.prov.operand_atoms(op, interproc=False)
        if atom_has_field(at, "root_project_name"):
            return "root"
        if atom_has_field(at, "project_name", "TargetId"):
            return "own"
        outer = r.outer_fn(b)
        for a in at:
            if a[0] == "param" and b is outer:
                return ("param", a[1])
            if a[0] == "field" and a[1].startswith("{env of") and outer is not b:
                for i in range(1, outer.argc + 1):
                    if outer.locals[i].get("name") and outer.locals[i]["name"] in a[2]:
                        return ("param", i)
        return None

    for _ in range(6):
        changed = False
        for b in f.user_bodies():
            outer = r.outer_fn(b)
            for bb, t in b.calls():
                cn = callee_base(t)
                if cn not in summary:
                    continue
                sm = summary[cn]
                if sm in ("root", "own"):
                    k = sm
                else:
                    idx = sm[1] - 1
                    k = kind_of(b, t["args"][idx]) if idx < len(t["args"]) else None
                if sites.get((b.name, bb)) != (k, cn):
                    sites[(b.name, bb)] = (k, cn)
                    changed = True
                # the enclosing function becomes a wrapper: always when it passes its own parameter through; when it fixes the reading itself ('root' /
                # 'own') only if it is a name resolver (it returns the parsed id(s) and nothing else)
                resolver_shaped = re.match(r"^std::(result::Result|option::Option)<(std::vec::Vec<)?[\w:]*TargetId>?(, anyhow::Error)?>$", outer.ret) is not None
                if k is not None and outer.name != m.name and outer.name not in names and summary.get(outer.name) != k and (isinstance(k, tuple) or resolver_shaped):
                    summary[outer.name] = k
                    changed = True
        if not changed:
            break
    n = 0
    for (bn, bb), (k, cn) in sorted(sites.items()):
        b = f.bodies[bn]
        outer = r.outer_fn(b)
        if isinstance(k, tuple):
            continue   # a wrapper: judged where it is called
        n += 1
        lab = f"{short(outer.name)}/{short(cn)}@{bb}" if outer.name != m.name else f"main/{short(cn)}"
        if outer.name == m.name:
            ctx.check(k == "root", lab, [site(b, bb)], "requested names are not parsed relative to the root project")
        elif outer.name in in_files:
            ctx.check(k == "own", lab, [site(b, bb)], "a reference inside a project file is not parsed relative to the declaring target's own project")
        else:
            # a helper outside the interpretation of project files (e.g. resolving the names given on the command line): either reading is legitimate here,
            # what matters is where the helper is used - and that is judged at its call sites through its summary
            ctx.check(k in ("root", "own"), lab, [site(b, bb)], "the current project handed to the name parser is neither the root project nor a target's own project")
    ctx.need(n >= 3, f"call sites of the name parser outside its wrappers (found {n})")


@rule("C19.NAMES-OFFERED", ["C19"], """the names offered on the command line are the qualified name of every loaded target plus, for a named root project, the bare names of its targets""", "K1", floor=2)
def names_offered(ctx):
    f = ctx.f
    r = ctx.r
    m = r.main_body()
    # the listing function: local fn returning Vec<String> called in main whose result flows to possible_values
    cands = [b for b in f.user_bodies() if b.ret == "std::vec::Vec<std::string::String>" and b.kind in ("AssocFn", "Fn") and any(callee_base(t) == b.name for _, t in m.calls())]
    # ... the one whose result is offered to the argument parser (`possible_values`), possibly inside the closure given to `mut_arg`
    def offered(b):
        mr = f.bodies[m.name]
        for bb, t in mr.calls():
            if callee_base(t) == b.name:
                fl = mr.prov.flows_forward(t["dest"]["local"])
                for x in [mr] + [f.bodies[n] for n in f.bodies if n.startswith(mr.name + "::{")]:
                    for cb, ct in x.calls():
                        if ct["callee"]["base"].endswith("Arg::<'help>::possible_values") or ct["callee"]["base"].endswith("::possible_values"):
                            if x is mr:
                                if any(operand_local(a) in fl for a in ct["args"]):
                                    return True
                            else:
                                # in a closure of main: the listed names are captured
                                for blk in mr.normal_blocks():
                                    for st in blk["stmts"]:
                                        if st["rv"]["k"] == "agg" and st["rv"].get("closure") == x.name and any(operand_local(o) in fl for o in st["rv"]["ops"]):
                                            return True
        return False
    narrowed = [b for b in cands if offered(b)]
    cands = narrowed or cands
    ctx.need(cands, "function listing the offered target names")
    for b in cands:
        at = b.prov.atoms(0)
        all_targets = [c for c in atom_callres(at) if c in f.bodies and re.search(r"Vec<[\w:]*TargetId>", f.bodies[c].ret)]
        tostr = any(c.endswith("ToString::to_string") or "to_string" in c for c in atom_callres(at)) or any(a[0] == "fn" and "to_string" in a[1] for a in at)
        ctx.check(bool(all_targets) and tostr, f"{short(b.name)}/qualified", [b.loc()], "the offered names do not contain the displayed id of every loaded target")
        G = guard_region(b, lambda d: d[0] == "call" and d[1].endswith("::is_some") and d[2] and atom_has_field(d[2][0], "root_project_name"), True)
        ext = [bb for bb, t in b.calls() if bb in G and re.search(r"::extend(::<.*>)?$|::push$|::append$", callee_decl(t))]
        keys = [bb for bb, t in b.calls() if bb in G and t["callee"]["base"].endswith("::keys")]
        ctx.check(bool(ext) and bool(keys), f"{short(b.name)}/bare-root-names", [site(b, x) for x in ext] or [b.loc()], "for a named root project the bare names of its targets are not offered")
        # all loaded targets: the lister ranges over every project
        for c in all_targets:
            cb = f.bodies[c]
            cat = cb.prov.atoms(0)
            ctx.check(atom_has_field(cat, "projects"), f"{short(c)}/all-projects", [cb.loc()], "the list of all targets does not range over all loaded projects")


def regex_literals(f):
    """string literals handed to Regex::new anywhere in the crate: [(body, bb, literal)]"""
    out = []
    for n, b in f.bodies.items():
        if b.kind in ("Const", "Static"):
            continue
        for bb, t in b.calls():
            if t["callee"]["base"].endswith("Regex::new") and t["args"]:
                for v in atom_consts(b.prov.operand_atoms(t["args"][0], interproc=False)):
                    if v.startswith('"'):
                        out.append((b, bb, v))
    return out


def _py_regex(lit):
    """the Rust regex literal as a Python pattern (the subset used here is common to both engines)"""
    v = lit
    if v.startswith('"') and v.endswith('"'):
        v = v[1:-1]
    v = v.replace("\\\\", "\\").replace('\\"', '"')
    if v.endswith("$") and not v.endswith("\\$"):
        v = v[:-1] + "\\Z"  # Rust's `$` (no multi-line flag) only matches at the very end; Python's also before a final newline
    return v


@rule("C14.NAME-REGEX", ["C14", "C19", "C09", "C13"], """the constant regexes that define valid names accept plain names and reject empty names, names starting with `-`, and names containing `:`, `.`, `/` or
      blanks; the `X.output` regex captures at most one `::`-qualified name (evaluated on the literals, as constants of the source)""", "K2", floor=3)
def name_regex(ctx):
    f = ctx.f
    import re as _re
    allre = regex_literals(f)
    outs = [x for x in allre if "output" in x[2]]
    vals = [x for x in allre if "output" not in x[2]]
    ctx.need(len(vals) >= 2, f"name-validation regex literals (found {len(vals)})")
    for (b, bb, lit) in vals:
        try:
            rx = _re.compile(_py_regex(lit))
        except _re.error as e:
            ctx.bad(f"{short(b.name)}/compiles", [site(b, bb)], f"the literal {lit} could not be interpreted: {e}", props=["C14", "C19"])
            continue
        good = ["a", "my-target", "007", "_hidden", "a_b-c"]
        bad = ["", "-", "-a", "a::b", "a:b", "a.b", "a b", "a/b", "a.output", " a", "a\n"]
        wrong = [x for x in good if not rx.search(x)] + [x for x in bad if rx.search(x)]
        ctx.check(not wrong, f"{short(b.name.split('::RE')[0]).split(' ')[0].strip('<')}/accepts-exactly-names", [site(b, bb)], f"the name regex {lit} misclassifies {wrong}: names containing `::`/`.` would make target references ambiguous (and the justified unwraps unjustified)", props=["C14", "C19"])
    if not outs:
        # a hand-written `X.output` parser instead of a regex: the suffix `.output` is stripped, what remains goes to the name parser (one `::` at most),
        # and it gets there only past a true verdict of a name validator (one of the fns applying the name regexes above) on it
        statics = {m.group(1) for (vb, _, _) in vals for m in [re.match(r"<(.*) as std::ops::Deref>", vb.name)] if m}
        validators = {x.name for x in f.user_bodies() if x.ret == "bool" and any(t["callee"]["base"].endswith("Regex::is_match") and t["args"] and
                      any(a[0] == "static" and a[1] in statics for a in x.prov.operand_atoms(t["args"][0])) for _, t in x.calls())}
        parsers = {ctx.r.fn_of(pf).name for pf in parse_fns(ctx)} | {pf.name for pf in parse_fns(ctx)}
        found = []
        for hb in f.user_bodies():
            for sbb, st_ in hb.calls():
                if not (re.search(r"str>::strip_suffix(::<.*>)?$", callee_base(st_)) and len(st_["args"]) > 1):
                    continue
                sat = hb.prov.operand_atoms(st_["args"][1], interproc=False)
                lits = set(atom_consts(sat)) | {f.const_value(a[1].split("::")[-1]) for a in sat if a[0] in ("constdef", "const") and isinstance(a[1], str) and re.match(r"[\w:]+$", a[1])}
                if '".output"' not in lits:
                    continue
                fl = hb.prov.flows_forward(st_["dest"]["local"])
                pcs = [pb for pb, pt in hb.calls() if callee_base(pt) in parsers and pt["args"] and operand_local(pt["args"][0]) in fl]
                def validated(d):
                    return d[0] == "call" and d[1] in validators
                G = guard_region(hb, validated, True)
                found.append((hb, sbb, bool(pcs), bool(pcs) and all(pb in G for pb in pcs), bool(validators)))
        ctx.need(found, "`X.output` regex literal, or a parser stripping the `.output` suffix")
        for (hb, sbb, parsed, guarded, hv) in found:
            ctx.check(parsed and guarded and hv, "output-reference/captures-one-qualified-name", [site(hb, sbb)],
                      "the hand-written `X.output` parser does not hand what precedes `.output` to the name parser under a true verdict of the name validators "
                      "(`a.b.output`, `a::b::c.output` ... must be refused)", props=["C14", "C19", "C09", "C13"])
    for (b, bb, lit) in outs:
        try:
            rx = _re.compile(_py_regex(lit))
        except _re.error as e:
            ctx.bad(f"{short(b.name)}/compiles", [site(b, bb)], f"the literal {lit} could not be interpreted: {e}", props=["C14", "C19"])
            continue
        cases = {"a.output": "a", "p::t.output": "p::t", "my-t_1.output": "my-t_1"}
        rejects = ["a::b::c.output", ".output", "a.b.output", "a.outputs", "a::.output", "::a.output", "a output", "a.output "]
        wrong = [k for k, v in cases.items() if not rx.search(k) or rx.search(k).group(1) != v] + [x for x in rejects if rx.search(x)]
        ctx.check(not wrong, "output-reference/captures-one-qualified-name", [site(b, bb)], f"the `X.output` regex {lit} misclassifies {wrong}", props=["C14", "C19", "C09", "C13"])


@rule("C19.ID-CONSTRUCTION-SITES", ["C19", "C09"], """target ids are built from text only by the name parser (which applies the current-project default); the only other construction is the
      enumeration of the loaded targets from the project map""", "K4", floor=2)
def id_construction_sites(ctx):
    f = ctx.f
    r = ctx.r
    parsers = {p.name for p in parse_fns(ctx)}
    n = 0
    for (b, sites) in r.bodies_constructing("TargetId"):
        outer = r.outer_fn(b).name
        for (bb, st) in sites:
            n += 1
            if outer in parsers:
                ctx.ok(f"{short(outer)}@{[s[0] for s in sites].index(bb)}", [site(b, bb)], "name parser")
                continue
            # enumeration of loaded targets: both fields derive from iteration over the project map (keys), no text parsing
            pat = b.prov.operand_atoms(agg_field_op(st, "project_name"))
            tat = b.prov.operand_atoms(agg_field_op(st, "target_name"))
            from_map = (any(c.endswith("::keys") or c.endswith("::iter") for c in atom_callres(tat)) or any(a[0] == "param" for a in tat)) and not any(re.search(r"regex::|str>::split|::captures|Match", c) for c in atom_callres(pat | tat))
            lister = re.search(r"Vec<[\w:]*TargetId>", f.bodies[outer].ret) is not None and f.bodies[outer].argc == 1
            ctx.check(from_map and lister, f"{short(outer)}@{bb}", [site(b, bb)],
                      "a target id is assembled outside the name parser: the current-project default (bare name = target of the same project) is bypassed")
    ctx.need(n >= 2, "constructions of TargetId")
