"""imports every rule module so that the rules register themselves"""
import rules_c01
import rules_c04
import rules_incr
import rules_watch
import rules_exit
import rules_config
import rules_fs
