"""C12 (clean), C13 (X.output), C15 (files resources), C16 (watcher filter), C18 (state identity) rules."""
from common import *
from engine import rule, AnchorLost
from rules_c01 import _must_pass
from rules_incr import panic_sites, state_delete_fns, state_save_fns, state_read_fns


# RESTRICTING: defined in common.py


def iteration_context(f, raw, bb, depth=0):
    """the iterations a site executes under, innermost first: [(body, what, iterator atoms)] - enclosing `for` loops of its body and, when the body is a
    closure or async block, the iterator adaptor (map / flat_map / for_each / ..) its parent passes it to, then the parent's own context"""
    out = []
    if depth > 6:
        return out
    for (nbb, sbb, ne, se, blks, it_atoms) in for_loops(raw):
        if bb in blks:
            out.append((raw, "for", it_atoms))
    if raw.kind == "Closure" or raw.coroutine:
        p = f.bodies.get(raw.parent) if raw.parent else None
        if p is not None and not (raw.coroutine and "Fn" in str(raw.coroutine)):
            for blk in p.normal_blocks():
                for st in blk["stmts"]:
                    rv = st["rv"]
                    if rv["k"] == "agg" and (rv.get("closure") == raw.name or rv.get("coroutine") == raw.name):
                        fl = p.prov.flows_forward(st["lhs"]["local"])
                        for cb, t in p.calls():
                            if any(operand_local(a) in fl for a in t["args"][1:]) and re.search(r"Iterator>?::\w+(::<.*>)?$|::for_each|::map|::flat_map", callee_decl(t)):
                                out.append((p, callee_base(t).split("::")[-1], p.prov.operand_atoms(t["args"][0])))
                        out += iteration_context(f, p, blk["id"], depth + 1)
        elif p is not None:
            pass  # the async body of an `async fn`: its callers' iterations are not part of this function
    return out


def subtree(f, fn_name):
    """bodies lexically inside a fn item (its closures / async blocks), including itself"""
    return [b for n, b in f.bodies.items() if n == fn_name or n.startswith(fn_name + "::{")]


# ------------------------------------------------------------------ C12
class DelSite:
    """a deletion as judged by the C12 rules: where it is decided (view, bb), which API it ends in, and the operand holding the deleted path there"""
    def __init__(self, raw, raw_bb, view, bb, api, path_op, via=None):
        self.raw, self.raw_bb, self.view, self.bb, self.api, self.path_op, self.via = raw, raw_bb, view, bb, api, path_op, via


def delete_sites(ctx):
    """every fs-deletion API call, located in the root view containing it. A deletion wrapped in a small helper used from several places
    (`async fn remove_file(path)` called for filtered files and for plain paths) is judged once per call of the helper, with the path that call passes."""
    r = ctx.r
    f = ctx.f
    if hasattr(ctx, "_del_sites"):
        return ctx._del_sites
    out = []
    copies = []
    for (b, bb, t, c) in r.fs_sites(lambda n: "delete" if is_fs_delete(n) else None):
        # every copy of the site: a deleting helper spliced into several callers is judged in each of them
        found = []
        for root in r.containers(b):
            rv = r.V(root)
            found += [(rv, nb) for nb in ([bb] if root.name == b.name else rv.locate_all(b.name, bb))]
        if not found:
            found = [(r.V(b), bb)]
        copies += [(b, bb, t, rv, nb) for (rv, nb) in found]
    for (b, bb, t, rv, nb) in copies:
        tv = rv.term(nb)
        api = t["callee"]["base"]
        # is the deleted path simply a parameter of the enclosing (multi-call-site) fn?
        l = operand_local(tv["args"][0]) if tv["args"] else None
        fn = r.fn_of(f.bodies[rv.name])
        pidx = None
        if l is not None:
            for o in origins(rv, l):
                if o[0] == "param" and rv.kind != "Closure":
                    pidx = o[1]
                if o[0] == "field" and len(o[1]) == 1 and any(x[0] == "param" and x[1] == 1 for x in o[2]) and rv.coroutine:
                    names = [x.get("name") for x in fn.locals[1:fn.argc + 1]]
                    if o[1][0] in names:
                        pidx = names.index(o[1][0]) + 1
        callers = r.callers_of(f.bodies[rv.name], prefer=[]) if pidx is not None else []
        if pidx is not None and len(callers) >= 2:
            for (cv, cbb, ct) in callers:
                if pidx - 1 < len(ct["args"]):
                    out.append(DelSite(b, bb, cv, cbb, api, ct["args"][pidx - 1], via=fn.name))
            continue
        out.append(DelSite(b, bb, rv, nb, api, tv["args"][0] if tv["args"] else None))
    ctx._del_sites = out
    return out


def classify_delete_site(ctx, ds, depth=0):
    """what a deletion site deletes, from the provenance of the deleted path in the view where it is decided:
    'state' (state path fn) | 'workdir' (work-dir path fn, remove_dir_all) | 'output-filtered' (lister applied to a target's output) |
    'output-plain' (a declared output path) | None"""
    r = ctx.r
    f = ctx.f
    rv = ds.view
    at = rv.prov.operand_atoms(ds.path_op) if ds.path_op is not None else set()
    spf = {b.name for b in r.state_path_fns()}
    wdf = {b.name for b in r.work_dir_path_fns()}
    cr = atom_callres(at)
    if cr & spf:
        return "state"
    if cr & wdf:
        return "workdir" if ds.api.endswith("remove_dir_all") else None
    out_fns = {b.name for b in f.user_bodies() if b.name.endswith("Target::output")}
    in_fns = {b.name for b in f.user_bodies() if b.name.endswith("Target::input")}
    from_output = bool(cr & out_fns) or any(a[0] == "field" and a[2] == "output" and path_ends(a[1], "BuildTarget") for a in at)
    from_input = bool(cr & in_fns) or any(a[0] == "field" and a[2] == "input" and (path_ends(a[1], "BuildTarget") or path_ends(a[1], "ServiceTarget")) for a in at)
    if from_output and not from_input:
        listers = set(r.listers())
        via_lister = any(c in f.bodies and listers & f.cg.reach([c]) for c in cr)
        return "output-filtered" if via_lister else "output-plain"
    # a single-role helper whose path is its own parameter (e.g. the state-delete fn called from three places): what its callers pass
    if depth == 0 and any(a[0] == "param" for a in at) and not from_input:
        pidx = sorted(a[1] for a in at if a[0] == "param")
        roles = set()
        raw = f.bodies[rv.name]
        for (cv, cbb, ct) in r.callers_of(raw, prefer=[]):
            for i in pidx:
                if i - 1 < len(ct["args"]):
                    roles.add(classify_delete_site(ctx, DelSite(ds.raw, ds.raw_bb, cv, cbb, ds.api, ct["args"][i - 1]), depth=1))
        if len(roles) == 1:
            return roles.pop()
    return None


@rule("C12.DELETE-SITES", ["C12", "C08", "C18"], """every call of a file-system deletion API deletes one of: a file listed (with the extension filter) under a declared output, a declared
      output path, a project's work directory, a target's state file - decided from the provenance of the deleted path; nothing else in the crate deletes""", "K4", floor=4)
def delete_sites_rule(ctx):
    sites = delete_sites(ctx)
    ctx.need(len(sites) >= 4, f"deletion API call sites (found {len(sites)}, 5 confirmed by hand)")
    seen = {}
    for ds in sites:
        b, bb = ds.raw, ds.raw_bb
        role = classify_delete_site(ctx, ds)
        inst = f"{short(ctx.r.outer_fn(b).name)}/{ds.api.split('::')[-1]}"
        k = seen.get(inst, 0)
        seen[inst] = k + 1
        ctx.check(role is not None, f"{inst}@{k}", [site(ds.view, ds.bb)], "a file-system deletion whose path is neither a declared output (or a file listed under it), nor a work directory, nor a state file: `--clean` or a normal run could delete something that was never declared",
                  detail=role or "", props=["C12"])
        # whole work directories (the recorded state of *every* target of a project) and declared outputs are only ever removed by main (`--clean`): the
        # engine itself may drop one target's own state file, nothing more
        if role in ("workdir", "output-filtered", "output-plain"):
            mb = ctx.r.main_body().name
            in_main = ds.view.name in ({ctx.r.main_async().name, mb} | {n_ for n_, uses in ctx.f.cg.spawn_roots.items() for (how, inb, _) in uses if how == "block_on" and inb == mb})
            ctx.check(in_main, f"{inst}/only-from-main@{k}", [site(ds.view, ds.bb)],
                      ("a whole work directory is removed from inside the engine: the recorded state of targets outside the requested closure (and of other invocations) disappears"
                       if role == "workdir" else "declared outputs are removed from inside the engine"),
                      props=["C12", "C08", "C18"] if role == "workdir" else ["C12", "C08"])


@rule("C12.OUTPUT-ONLY", ["C12"], """the paths deleted by output cleaning derive from the target's declared *outputs* only, never from its inputs""", "K5", floor=1)
def output_only(ctx):
    r = ctx.r
    f = ctx.f
    n = 0
    in_fns = {b.name for b in f.user_bodies() if b.name.endswith("Target::input")}
    for ds in delete_sites(ctx):
        b, bb, rv, nb = ds.raw, ds.raw_bb, ds.view, ds.bb
        at = rv.prov.operand_atoms(ds.path_op) if ds.path_op is not None else set()
        touches_input = bool(atom_callres(at) & in_fns) or any(a[0] == "field" and a[2] == "input" and (path_ends(a[1], "BuildTarget") or path_ends(a[1], "ServiceTarget")) for a in at)
        role = classify_delete_site(ctx, ds)
        if role in ("output-filtered", "output-plain") or touches_input:
            n += 1
            ctx.check(not touches_input, f"{short(r.outer_fn(b).name)}/{ds.api.split('::')[-1]}@{nb}", [site(rv, nb)], "a deleted path derives from the target's declared inputs: `--clean` would delete source files")
    ctx.need(n >= 1, "output cleaning sites")


def t_in(rv, nb):
    return rv.term(nb)


@rule("C12.FILTER-RESPECTED", ["C12"], """with an extension filter only the files listed by the lister (same paths, same filter) are removed; without one each declared path is removed as a
      file or as a directory according to what it is""", "K1", floor=3)
def filter_respected(ctx):
    r = ctx.r
    f = ctx.f
    listers = set(r.listers())
    n = 0
    def has_filter(d):
        return d[0] == "call" and d[1].endswith("::is_some") and d[2] and atom_has_field(d[2][0], "extensions")
    def no_filter(d):
        return d[0] == "call" and d[1].endswith("::is_none") and d[2] and atom_has_field(d[2][0], "extensions")
    def filtered_region(rv):
        return guard_region(rv, has_filter, True) | guard_region(rv, no_filter, False)
    def unfiltered_region(rv):
        return guard_region(rv, has_filter, False) | guard_region(rv, no_filter, True)
    for ds in delete_sites(ctx):
        b, bb, rv, nb = ds.raw, ds.raw_bb, ds.view, ds.bb
        role = classify_delete_site(ctx, ds)
        if role == "output-filtered":
            n += 1
            G = filtered_region(rv)
            at = rv.prov.operand_atoms(ds.path_op)
            lister_calls = [x for x in atom_callres(at) if x in f.bodies and listers & f.cg.reach([x])]
            ok = nb in G and bool(lister_calls) and ds.api.endswith("remove_file")
            # the lister is fed the resource's own paths and extensions
            fed = False
            for cb, ct in rv.calls():
                if callee_base(ct) in lister_calls and cb in G:
                    a0 = rv.prov.operand_atoms(ct["args"][0], interproc=False)
                    a1 = rv.prov.operand_atoms(ct["args"][1], interproc=False) if len(ct["args"]) > 1 else set()
                    fed = fed or (atom_has_field(a0, "paths") and atom_has_field(a1, "extensions"))
                    # ... or the resource itself (`list_files_in_resource(resource)`): an element of the output's file resources
                    l0 = operand_local(ct["args"][0])
                    if l0 is not None and re.search(r"FilesResource$", rv.locals[l0]["ty"].replace("&", "").strip()) and atom_has_field(rv.prov.operand_atoms(ct["args"][0]), "files"):
                        fed = True
            ctx.check(ok and fed, f"{short(r.outer_fn(b).name)}/filtered", [site(rv, nb)], "with an extension filter, files are removed that do not come from the lister applied to the resource's paths and extensions (non-matching files would be deleted)")
        elif role == "output-plain":
            n += 1
            base = ds.api
            what = "is_file" if base.endswith("remove_file") else "is_dir"
            ok = False
            for e in rv.edges:
                if e.label and e.label[0] == "bool" and e.label[1] is True and nb in rv.dominated_by_edge(e):
                    if origin_matches(edge_origin(rv, e), lambda o: o[0] in ("await", "call") and o[1] and re.search(r"(Path|Metadata|FileType)::" + what + "$", o[1])):
                        ok = True
            ctx.check(ok, f"{short(r.outer_fn(b).name)}/{base.split('::')[-1]}", [site(rv, nb)], f"`{base.split('::')[-1]}` is not guarded by `{what}()`")
            # plain cleaning happens where there is no filter
            Gf = unfiltered_region(rv)
            Gt = filtered_region(rv)
            if Gf or Gt:
                ctx.check(nb in Gf, f"{short(r.outer_fn(b).name)}/{base.split('::')[-1]}/unfiltered-branch", [site(rv, nb)], "a declared output path is removed wholesale although the resource has an extension filter")
    ctx.need(n >= 3, "deletion sites of the output cleaners")


@rule("C12.SCOPE", ["C12", "C18"], """in main everything destructive happens under --clean: state deletion of the resolved targets when targets were requested, work-dir removal of the loaded
      project directories when none was, output cleaning of the resolved targets""", "K1", floor=3)
def scope(ctx):
    r = ctx.r
    f = ctx.f
    ma = r.main_async()
    def is_clean(d):
        return d[0] == "call" and d[1].endswith("ArgMatches::is_present") and len(d[2]) > 1 and any(a[0] in ("static", "constdef") and a[1].endswith("CLEAN") for a in d[2][1])
    # the flag may be tested inside the async block or bound to a local before it (captured)
    Gc = guard_region(ma, is_clean, True)
    if not Gc:
        m = r.main_body()
        clean_locals = set()
        for bb, t in m.calls():
            if t["callee"]["base"].endswith("ArgMatches::is_present") and len(t["args"]) > 1 and any(a[0] in ("static", "constdef") and a[1].endswith("CLEAN") for a in m.prov.operand_atoms(t["args"][1])):
                for l in m.prov.flows_forward(t["dest"]["local"]):
                    nm = m.locals[l].get("name")
                    if nm:
                        clean_locals.add(nm)
        Gc = guard_region(ma, lambda d: d[0] == "field" and any(d[1] == n or n in d[1] for n in clean_locals), True)
    # the captured variables of an async block of main, identified by what they hold (not by their names): the requested names (an Option deriving from
    # the TARGETS argument), the resolved targets (map TargetId -> Target), the loaded project directories (collection of paths)
    m = r.main_body()
    mraw = f.bodies[m.name]
    def captures(block_name):
        cap = None
        for blk in mraw.normal_blocks():
            for st in blk["stmts"]:
                if st["rv"]["k"] == "agg" and st["rv"].get("coroutine") == block_name:
                    cap = st
        req_names, tgt_names, dir_names = set(), set(), set()
        req_true, req_false = set(), set()
        if cap is None:
            return None
        for nm, o in zip(cap["rv"].get("fields") or [], cap["rv"]["ops"]):
            l = operand_local(o)
            ty = mraw.locals[l]["ty"] if l is not None else ""
            at = mraw.prov.operand_atoms(o)
            from_targets_arg = any(c.endswith("ArgMatches::values_of_lossy") or c.endswith("ArgMatches::values_of") for c in atom_callres(at)) and any(a[0] in ("static", "constdef") and a[1].endswith("TARGETS") for a in at)
            if re.search(r"Option<", ty) and from_targets_arg:
                req_names.add(nm)
            if ty.replace("&", "").replace("mut ", "").strip() == "bool" and from_targets_arg and l is not None:
                # `let requested = requested_targets.is_some()` bound before the async block
                for o_ in origins(mraw, l):
                    if o_[0] == "call" and o_[1].endswith("::is_some"):
                        req_true.add(nm)
                    if o_[0] == "call" and o_[1].endswith("::is_none"):
                        req_false.add(nm)
            if re.search(r"HashMap<[\w:]*TargetId, [\w:]*Target>", ty):
                tgt_names.add(nm)
            if re.search(r"(Vec|HashSet|BTreeSet)<[\w:]*PathBuf>", ty):
                dir_names.add(nm)
            # ... or carried by a variant of a small local enum (`CleanScope::AllProjects(dirs)`)
            tyn = ty.replace("&", "").replace("mut ", "").strip()
            mo = re.match(r"std::option::Option<(.*)>$", tyn)
            if mo:
                tyn = mo.group(1)
            if tyn in f.adts and f.adts[tyn]["enum"] and any(re.search(r"(Vec|HashSet|BTreeSet)<[\w:]*PathBuf>", fd["ty"]) for v_ in f.adts[tyn]["variants"] for fd in v_["fields"]):
                dir_names.add(nm)
        return req_names, req_true, req_false, tgt_names, dir_names
    # a preliminary step of `--clean` may run in an async block of its own, guarded in main's body (`if clean && requested.is_none() { block_on(..) }`)
    siblings = []
    for n_, uses in f.cg.spawn_roots.items():
        for (how, inb, sbb) in uses:
            if how == "block_on" and inb == m.name and n_ != ma.name:
                siblings.append((r.V(f.bodies[n_]), sbb))
    def is_targets_opt(atoms):
        return any(c.endswith("ArgMatches::values_of_lossy") or c.endswith("ArgMatches::values_of") for c in atom_callres(atoms)) and any(a[0] in ("static", "constdef") and a[1].endswith("TARGETS") for a in atoms)
    def m_req(which):
        return lambda d: d[0] == "call" and d[1].endswith("::" + which) and d[2] and is_targets_opt(d[2][0])
    Mc = guard_region(m, is_clean, True)
    Ms = guard_region(m, m_req("is_some"), True) | guard_region(m, m_req("is_none"), False)
    Mn = guard_region(m, m_req("is_some"), False) | guard_region(m, m_req("is_none"), True)
    if not Gc:
        # the flag may also have been folded into an optional value built in main (`let scope = if !clean { None } else { Some(..) }`) and tested in the
        # block with `if let Some(scope) = scope`: every `Some` that can reach the captured variable is built under a true flag
        cap0 = None
        for blk in mraw.normal_blocks():
            for st in blk["stmts"]:
                if st["rv"]["k"] == "agg" and st["rv"].get("coroutine") == ma.name:
                    cap0 = st
        Rmc = guard_region(mraw, is_clean, True)
        if cap0 is not None and Rmc:
            for nm, o in zip(cap0["rv"].get("fields") or [], cap0["rv"]["ops"]):
                l = operand_local(o)
                if l is None or not re.search(r"Option<", mraw.locals[l]["ty"]):
                    continue
                somes = [bb for (bb, st) in mraw.aggregates("Option", "Some") if l in mraw.prov.flows_forward(st["lhs"]["local"]) or st["lhs"]["local"] == l]
                if somes and all(bb in Rmc for bb in somes):
                    for e in ma.edges:
                        if e.label and e.label[0] == "variant" and e.label[2] == ("Some",) and e.label[3] and (nm in place_fields(e.label[3]) or
                                origin_matches(edge_origin(ma, e), lambda x: x[0] == "field" and nm in x[1])):
                            Gc |= ma.dominated_by_edge(e)
    ctx.need(Gc or (siblings and Mc), "region of main guarded by the --clean flag")
    caps = captures(ma.name)
    ctx.need(caps, "construction of main's async block")
    req_names, req_true, req_false, tgt_names, dir_names = caps
    sib_dirs = set()
    for (sv, sbb) in siblings:
        c2 = captures(sv.name)
        if c2:
            sib_dirs |= c2[4]
    ctx.need((req_names or req_true or req_false) and tgt_names and (dir_names or sib_dirs), f"captured requested names / resolved targets / project directories of main's async block (found {sorted(req_names)}, {sorted(tgt_names)}, {sorted(dir_names | sib_dirs)})")
    def req_test(which):
        def p(d):
            return (d[0] == "call" and d[1].endswith("::" + which) and d[2] and any(a[0] == "field" and a[2] in req_names for a in d[2][0]))
        return p
    def flag(names):
        return lambda d: d[0] == "field" and d[1] in names
    Gs = guard_region(ma, req_test("is_some"), True, within=Gc) | guard_region(ma, req_test("is_none"), False, within=Gc) | guard_region(ma, flag(req_true), True, within=Gc) | guard_region(ma, flag(req_false), False, within=Gc)
    Gn = guard_region(ma, req_test("is_some"), False, within=Gc) | guard_region(ma, req_test("is_none"), True, within=Gc) | guard_region(ma, flag(req_true), False, within=Gc) | guard_region(ma, flag(req_false), True, within=Gc)
    # the scope may have been decided once, as a variant of a small local enum built in main under the test of the TARGETS argument
    # (`match values_of(TARGETS) { Some(..) => Scope::Requested, None => Scope::All(dirs) }`): the arms of a match on it are guarded accordingly
    def targets_opt_edge(e, which):
        l_ = e.label
        if l_ and l_[0] == "variant" and l_[2] == (which,) and \
                origin_matches(edge_origin(mraw, e), lambda o: o[0] == "call" and re.search(r"ArgMatches::values_of(_lossy)?$", o[1]) is not None and
                               any(a[0] in ("static", "constdef") and a[1].endswith("TARGETS") for x in o[3]["args"] for a in mraw.prov.operand_atoms(x))):
            return True
        # `if requested_targets.is_some() { .. }`
        if l_ and l_[0] == "bool" and l_[2] is not None:
            for d in bool_atom_desc(mraw, l_[2]):
                inner, flip = ((d[1], True) if d[0] == "not" else ((d,), False))
                for x in inner:
                    if x[0] == "call" and x[2] and is_targets_opt(x[2][0]):
                        val = l_[1] != flip
                        if (x[1].endswith("::is_some") and ((which == "Some") == val)) or (x[1].endswith("::is_none") and ((which == "None") == val)):
                            return True
        return False
    for ap, adt in f.adts.items():
        if not adt["enum"] or ap.startswith("std::") or ap.startswith("core::"):
            continue
        for v_ in adt["variants"]:
            sites_ = [bb for (bb, st) in mraw.aggregates(ap.split("::")[-1], v_["name"]) if st["rv"].get("adt") == ap]
            if not sites_:
                continue
            for which, tgt in (("Some", "s"), ("None", "n")):
                es = [e for e in mraw.edges if targets_opt_edge(e, which)]
                if es and all(any(bb in mraw.dominated_by_edge(e) for e in es) for bb in sites_):
                    reg = variant_region(ma, ap.split("::")[-1], v_["name"], within=Gc) if Gc else set()
                    if tgt == "s":
                        Gs |= reg
                    else:
                        Gn |= reg
    # `match &requested_targets { Some(_) => .., None => .. }`: the arms of a match on the captured option itself
    for e in ma.edges:
        if e.label and e.label[0] == "variant" and e.label[2] in (("Some",), ("None",)) and e.label[3] and e.src in (Gc or set()) and \
                (set(place_fields(e.label[3])) & req_names or origin_matches(edge_origin(ma, e), lambda x: x[0] == "field" and set(x[1]) & req_names)):
            if e.label[2] == ("Some",):
                Gs |= ma.dominated_by_edge(e)
            else:
                Gn |= ma.dominated_by_edge(e)
    n = 0
    # destructive sites: deletion API sites located in main's view, and calls (in main's view) of local fns that delete
    items = []
    for ds in delete_sites(ctx):
        b, bb, rv, nb = ds.raw, ds.raw_bb, ds.view, ds.bb
        if rv.name == ma.name:
            items.append((nb, classify_delete_site(ctx, ds), r.root_env_fields(rv, ds.path_op), short(r.outer_fn(b).name)))
        else:
            role = classify_delete_site(ctx, ds)
            raw = f.bodies[rv.name]
            for (cv, cbb, ct) in r.callers_of(raw, prefer=[]):
                if cv.name == ma.name:
                    items.append((cbb, role, r.root_env_fields(cv, ct["args"][0]) if ct["args"] else set(), short(r.fn_of(raw).name)))
    for (sv, sbb) in siblings:
        c2 = captures(sv.name) or (set(),) * 5
        for ds in delete_sites(ctx):
            role = classify_delete_site(ctx, ds)
            sites_here = []
            if ds.view.name == sv.name:
                sites_here.append((ds.bb, r.root_env_fields(ds.view, ds.path_op)))
            else:
                for (cv, cbb, ct) in r.callers_of(f.bodies[ds.view.name], prefer=[]):
                    if cv.name == sv.name:
                        sites_here.append((cbb, r.root_env_fields(cv, ct["args"][0]) if ct["args"] else set()))
            for (xbb, ups) in sites_here:
                n += 1
                lab = short(r.outer_fn(ds.raw).name)
                if role == "workdir":
                    ctx.check(sbb in Mc and sbb in Mn and bool(set(ups) & c2[4]), f"main/{lab}@{role}", [site(sv, xbb)], "work directories are removed outside `--clean` without targets, or not for the loaded project directories", props=["C12", "C18"])
                elif role == "state":
                    ctx.check(sbb in Mc and sbb in Ms and bool(set(ups) & c2[3]), f"main/{lab}@{role}", [site(sv, xbb)], "recorded state is deleted outside `--clean <targets>` or not for the resolved targets", props=["C12"])
                else:
                    ctx.check(sbb in Mc and bool(set(ups) & c2[3]) and role in ("output-filtered", "output-plain"), f"main/{lab}@{role}@sibling", [site(sv, xbb)], "outputs are cleaned outside `--clean` or not for the resolved targets", props=["C12"])
                items.append((None, role, ups, lab))
    for (bb, role, ups, lab) in items:
        if bb is None:
            continue
        n += 1
        if role == "state":
            ctx.check(bb in Gc and bb in Gs and bool(set(ups) & tgt_names), f"main/{lab}@{role}", [site(ma, bb)], "recorded state is deleted outside `--clean <targets>` or not for the resolved targets", props=["C12"])
        elif role == "workdir":
            ctx.check(bb in Gc and bb in Gn and bool(set(ups) & dir_names), f"main/{lab}@{role}", [site(ma, bb)], "work directories are removed outside `--clean` without targets, or not for the loaded project directories", props=["C12", "C18"])
        else:
            ctx.check(bb in Gc and bool(set(ups) & tgt_names) and role in ("output-filtered", "output-plain"), f"main/{lab}@{role}@{bb}", [site(ma, bb)], "outputs are cleaned outside `--clean` or not for the resolved targets", props=["C12"])
    ctx.need(n >= 3, "destructive sites in main")
    # each part of `--clean` is there at all: without the state deletion `--clean T` would skip T; without the work-dir removal `--clean` keeps records
    seen = {role for (bb, role, ups, lab) in items}
    ctx.check("state" in seen, "main/forgets-state-of-requested", [ma.loc()], "`--clean <targets>` does not delete the recorded state of the resolved targets: they could be skipped instead of being rebuilt", props=["C12"])
    ctx.check("workdir" in seen, "main/forgets-all-state", [ma.loc()], "`--clean` without targets does not remove the work directories: recorded state survives a full clean", props=["C12"])
    ctx.check(bool(seen & {"output-filtered", "output-plain"}), "main/cleans-outputs", [ma.loc()], "`--clean` does not remove the declared outputs", props=["C12"])


@rule("C12.WORKDIR-PATH", ["C12", "C16"], """the directory removed by work-dir removal is `<project dir>/.zinoma`, never the project directory itself""", "K5", floor=1)
def workdir_path(ctx):
    r = ctx.r
    wd = r.work_dir_path_fns()
    ctx.need(wd, "work-dir path function")
    for w in wd:
        joins = [(bb, t) for bb, t in w.calls() if t["callee"]["base"].endswith("Path::join")]
        ok = any(any(a[0] == "constdef" and a[1].endswith("WORK_DIR_NAME") for a in w.prov.operand_atoms(t["args"][1])) and ("param", 1) in w.prov.operand_atoms(t["args"][0]) for bb, t in joins)
        ctx.check(ok, f"{short(w.name)}", [w.loc()], "the work-dir path is not `project_dir.join(WORK_DIR_NAME)`")
    v = ctx.f.const_value("WORK_DIR_NAME")
    ctx.check(v is not None and ".zinoma" in v, "WORK_DIR_NAME", [], f"the work directory name is {v}")
    n = 0
    for ds in delete_sites(ctx):
        b, bb, rv, nb = ds.raw, ds.raw_bb, ds.view, ds.bb
        at0 = rv.prov.operand_atoms(ds.path_op) if ds.path_op is not None else set()
        touches_target = any(c.endswith("Target::output") or c.endswith("Target::input") for c in atom_callres(at0)) or any(a[0] == "field" and a[2] in ("input", "output") and "Target" in a[1] for a in at0)
        if ds.api.endswith("remove_dir_all") and classify_delete_site(ctx, ds) in ("workdir", None) and not touches_target:
            n += 1
            at = rv.prov.operand_atoms(ds.path_op)
            ctx.check(bool(atom_callres(at) & {x.name for x in wd}), f"{short(r.outer_fn(b).name)}/remove", [site(rv, nb)], "a whole directory is removed whose path does not come from the work-dir path function (nor from a declared output)")
    ctx.need(n >= 1, "work-dir removal site")


@rule("C12.NO-FOLLOW", ["C12", "C15"], """directory walks never follow symbolic links""", "K4", floor=0)
def no_follow(ctx):
    bad = 0
    walks = 0
    for b in ctx.f.user_bodies():
        for bb, t in b.calls():
            base = t["callee"]["base"]
            if base == "walkdir::WalkDir::new":
                walks += 1
            if base == "walkdir::WalkDir::follow_links" or base.endswith("::follow_root_links"):
                v = const_val(t["args"][1]) if len(t["args"]) > 1 else None
                if v != "false":
                    bad += 1
                    ctx.bad(f"{short(b.name)}/follow_links", [site(b, bb)], "the directory walk follows symbolic links: cleaning/listing reaches files outside the declared paths")
    ctx.need(walks >= 1, "WalkDir::new call")
    if not bad:
        ctx.ok("walks", [f"{walks} walk(s) examined"], "links are not followed")
    # ... and no deletion acts on a path that was first resolved through the links it contains (`canonicalize`, `read_link`): removing a declared path that
    # is a symbolic link removes the link, never what it points to
    def flat(o):
        out = []
        for x in o:
            out.append(x)
            if x[0] == "field":
                out += flat(x[2])
        return out
    seen = set()
    for ds in delete_sites(ctx):
        b, bb = ds.raw, ds.raw_bb
        if (b.name, bb) in seen:
            continue
        seen.add((b.name, bb))
        t = b.term(bb)
        l = operand_local(t["args"][0]) if t["args"] else None
        res = [x for x in flat(origins(b, l))if x[0] in ("call", "await") and x[1] and re.search(r"::(canonicalize|read_link)$", x[1])] if l is not None else []
        k = sum(1 for (n_, _) in seen if n_ == b.name) - 1
        ctx.check(not res, f"{short(ctx.r.outer_fn(b).name)}/{ds.api.split('::')[-1]}/unresolved-path@{k}", [site(b, bb)],
                  "the deleted path was first resolved through symbolic links: cleaning a declared path that is a link deletes what the link points to", props=["C12"])


# ------------------------------------------------------------------ C13
@rule("C13.CMD-IDENTITY", ["C13", "C02"], """a command resource is identified by its text *and* the directory it runs in: nowhere is the bare command text of a CmdResource used
      as an identity (compared with another resource's text, or used as the element/key of a set or map) without the directory""", "K4", floor=1)
def cmd_identity(ctx):
    f = ctx.f
    def fields(b, op):
        return {a[2] for a in b.prov.operand_atoms(op, interproc=False) if a[0] == "field" and path_ends(a[1], "CmdResource")}
    keyed = re.compile(r"(HashSet|BTreeSet|HashMap|BTreeMap|IndexSet|IndexMap)::<.*>::(insert|contains|contains_key|get|get_mut|entry|remove|replace|take)$")
    n = 0
    bad = []
    for b in f.user_bodies():
        if f.is_derived(b):
            continue
        for bb, t in b.calls():
            base, decl = t["callee"]["base"], callee_decl(t)
            args = t["args"]
            if re.search(r"PartialEq(<.*>)?>?::(eq|ne)$", base) and len(args) == 2:
                fa, fb_ = fields(b, args[0]), fields(b, args[1])
                if fa or fb_:
                    n += 1
                if fa == {"cmd"} and fb_ == {"cmd"}:
                    bad.append((b, bb, "two resources are compared by their command text only"))
            elif keyed.search(decl) and len(args) >= 2:
                fk = fields(b, args[1])
                if fk:
                    n += 1
                if fk == {"cmd"}:
                    bad.append((b, bb, f"`{decl.split('::')[-1]}` keyed by the command text only"))
    users = [b for b in f.user_bodies() if not f.is_derived(b) and any(fields(b, a) for _, t in b.calls() for a in t["args"])]
    ctx.need(users, "bodies handling CmdResource fields")
    ctx.check(not bad, "text-and-dir", [site(b, bb) for b, bb, _ in bad] or [f"{len(users)} bodies use CmdResource fields, {n} comparison/key sites"],
              "; ".join(sorted({w for _, _, w in bad})) + ": the same command text declared in two project directories (two producers' `cat VERSION`) collapses into one resource, and a change of the other producer's output is never seen")


@rule("C13.INHERIT", ["C13", "C02"], """for every `X.output` input the resolver appends X's whole output (files and commands) to the consumer's input""", "K1", floor=2)
def inherit(ctx):
    f = ctx.f
    rs = ctx.r.resolvers()
    ctx.need(rs, "resolver")
    b = rs[0]
    ext = [(bb, t) for bb, t in b.calls() if callee_base(t) in extend_input_fns(f)[0]]   # innermost (see C09.OUTPUT-OF-BUILD-ONLY)
    ctx.need(ext, "extend_input call in the resolver")
    for bb, t in ext:
        at = b.prov.operand_atoms(t["args"][1], interproc=False)
        ctx.check(atom_has_field(at, "output"), f"{short(b.name)}/extends-with-output", [site(b, bb)], "the consumer's input is not extended with the producer's `output`")
        # in a loop over the from-input dependencies with only exhaustion / error exits
        inloop = False
        for (nbb, sbb, ne, se, blks, it_atoms) in for_loops(b):
            if bb in blks:
                inloop = True
                exits = [e for bl in blks for e in b.succ.get(bl, ()) if e.dst not in blks and b.term(e.dst)["k"] != "unreachable"]
                def is_try_break(e):
                    # `?` inside the loop: the error of the step is propagated
                    return bool(e.label and e.label[0] == "variant" and e.label[2] == ("Break",) and path_ends(e.label[1] or "", "ControlFlow")) or \
                        any(tb_be is not None and e.src == tb_be.src and e.dst == tb_be.dst for (_, _, _, tb_be) in try_edges(b))
                other = [e for e in exits if not (ne is not None and e.src == ne.src and e.dst == ne.dst) and not is_try_break(e) and
                         not any(x in (b.reach_from(e.dst) | {e.dst}) for (x, st) in b.aggregates("Result", "Err"))]
                ctx.check(not other, f"{short(b.name)}/all-producers", [site(b, nbb)], "the loop over `X.output` producers can stop before all of them were inherited")
        ctx.check(inloop, f"{short(b.name)}/loop", [site(b, bb)], "the inheritance is not applied to every `X.output` producer")
    # Resources::extend appends both files and cmds
    # the merge of two resource sets: the local fn (&mut Resources, &Resources), whatever it is called
    exts = [x for x in f.user_bodies() if x.kind in ("Fn", "AssocFn") and x.argc == 2 and re.search(r"^&mut [\w:]*Resources$", x.locals[1]["ty"]) and re.search(r"^&[\w:]*Resources$", x.locals[2]["ty"])]
    ctx.need(exts, "Resources::extend")
    for x in exts:
        got = set()
        for bb, t in x.calls():
            if re.search(r"extend_from_slice$|::extend$|::append$|::push$|::insert$", callee_base(t)):
                a0 = atom_fields(x.prov.operand_atoms(t["args"][0], interproc=False), "Resources")
                a1 = atom_fields(x.prov.operand_atoms(t["args"][1], interproc=False), "Resources") if len(t["args"]) > 1 else set()
                got |= (a0 & a1)
        ctx.check({"files", "cmds"} <= got, f"{short(x.name)}", [x.loc()], f"Resources::extend appends only {sorted(got)}: inherited {sorted({'files', 'cmds'} - got)} are lost")


@rule("C13.BOUND-TO-DECLARER", ["C13", "C18"], """declared paths are joined to, and declared commands run in, the directory of the project that declares them; that directory comes from the project
      entry the target was taken from""", "K5", floor=2)
def bound_to_declarer(ctx):
    f = ctx.f
    n = 0
    def from_project_dir(body, op, depth=0):
        """the operand derives from a `project_dir` - here, or (the body being a constructor that takes the directory as a parameter) at every call site"""
        at = body.prov.operand_atoms(op, interproc=False) if op is not None else set()
        # (the field of the target's metadata / of the project entry - not a captured variable that happens to be called so)
        if any(a[0] == "field" and "project_dir" in a[2] and not a[1].startswith("{env of") for a in body.prov.operand_atoms(op)) if op is not None else False:
            return True
        outer = ctx.r.outer_fn(body)
        ps = sorted(a[1] for a in at if a[0] == "param")
        envs = [re.sub(r"^_ref__", "", a[2]) for a in at if a[0] == "field" and a[1].startswith("{env of")]
        names = [outer.locals[i].get("name") for i in range(1, outer.argc + 1)]
        idx = [i for i in ps if body.name == outer.name] + [names.index(nm) + 1 for nm in envs if nm in names]
        if not idx or depth > 3:
            return False
        sites_ = [(f.bodies[c], cbb) for (c, cbb) in f.cg.call_sites.get(outer.name, ()) if cbb is not None and c in f.bodies and not f.is_derived(f.bodies[c]) and f.bodies[c].term(cbb)["k"] == "call"]
        if not sites_:
            return False
        for (cb, cbb) in sites_:
            ct = cb.term(cbb)
            if not any(i - 1 < len(ct["args"]) and from_project_dir(cb, ct["args"][i - 1], depth + 1) for i in idx):
                return False
        return True
    for b in f.user_bodies():
        for (bb, st) in b.aggregates("CmdResource"):
            n += 1
            ok = from_project_dir(b, agg_field_op(st, "dir"))
            ctx.check(ok, f"{short(b.name)}/cmd-dir@{bb}", [site(b, bb)], "a command resource is not bound to the declaring project's directory")
        for (bb, st) in b.aggregates("FilesResource"):
            n += 1
            op = agg_field_op(st, "paths")
            at = b.prov.operand_atoms(op)
            joins = [c for c in atom_callres(at) if c.endswith("Path::join")]
            ok = (bool(joins) or any(a[0] == "closure" for a in at)) and from_project_dir(b, op)
            ctx.check(ok, f"{short(b.name)}/paths@{bb}", [site(b, bb)], "declared paths are not joined to the declaring project's directory")
    ctx.need(n >= 2, f"constructions of FilesResource / CmdResource (found {n})")
    # metadata.project_dir comes from the project entry of the resolved target
    rs = ctx.r.resolvers()
    ctx.need(rs, "resolver")
    b = rs[0]
    tf = [(bb, t) for bb, t in b.calls() if callee_base(t) in f.bodies and re.search(r"Result<\([\w:]*Target, ", f.bodies[callee_base(t)].ret)]
    ctx.need(tf, "call of the target transformation in the resolver")
    for bb, t in tf:
        at = b.prov.operand_atoms(t["args"][2], interproc=False) if len(t["args"]) > 2 else set()
        ok = any(c.endswith("::get_mut") or c.endswith("::get") for c in atom_callres(at)) and atom_has_field(at, "projects")
        idat = b.prov.operand_atoms(t["args"][0], interproc=False)
        ctx.check(ok, f"{short(b.name)}/project-dir-of-declarer", [site(b, bb)], "the directory given to the target transformation is not the one stored with the project the target was taken from")


@rule("C13.CONSUMERS-SEE-ALL", ["C13", "C06", "C15"], """the watcher ranges over all file resources of the (extended) input, and the lister over all resources and all their paths""", "K5", floor=2)
def consumers_see_all(ctx):
    f = ctx.f
    r = ctx.r
    # watcher constructor loops over input.files
    from rules_watch import watcher_ctor_fn
    for w in watcher_ctor_fn(ctx):
        ok = False
        for (nbb, sbb, ne, se, blks, it_atoms) in for_loops(w):
            if atom_has_field(it_atoms, "files", "Resources"):
                exits = [e for bl in blks for e in w.succ.get(bl, ()) if e.dst not in blks and w.term(e.dst)["k"] != "unreachable"]
                other = [e for e in exits if not (ne is not None and e.src == ne.src and e.dst == ne.dst)]
                ok = not other and not [c for c in atom_callres(it_atoms) if re.search(r"::(take|skip|filter|step_by)$", c)]
        if not ok:
            # ... or an iterator chain over the file resources consumed by a closure (fold / for_each / map / flat_map), unrestricted
            for bb, t in w.calls():
                if re.search(r"Iterator>?::(fold|for_each|map|flat_map|try_fold|try_for_each)(::<.*>)?$", callee_decl(t)) and t["args"]:
                    at = w.prov.operand_atoms(t["args"][0])
                    if atom_has_field(at, "files", "Resources") and not [c for c in atom_callres(at) if re.search(RESTRICTING, c)]:
                        ok = True
        # a filter over the grouped paths may only drop groups that have no path at all
        for bb, t in w.calls():
            if re.search(r"Iterator>?::filter(::<.*>)?$", callee_decl(t)):
                for fb in closure_bodies_passed(w, t):
                    def is_empty_call(o):
                        return o[0] == "call" and o[1].endswith("::is_empty")
                    good = True
                    for p_ in enumerate_paths(fb):
                        ro = ret_origins(fb, p_)
                        ne = any(o[0] == "not" and origin_matches(o[1], is_empty_call) for o in ro)
                        if not ne and not is_const_ret(ro, "true"):
                            good = False
                    ctx.check(good, f"{short(w.name)}/only-empty-groups-dropped", [site(w, bb)],
                              "the watcher constructor filters out groups of paths by something other than `no path at all`: declared inputs would not be watched", props=["C13", "C06"])
        ctx.check(ok, f"{short(w.name)}/all-file-resources", [w.loc()], "the watcher does not cover every file resource of the input (inherited ones would not be watched)", props=["C13", "C06"])
    # every path of every group is handed to the notification back-end: the loop that calls `watch` ranges over the group's paths without restriction
    # (each group has its own extension filter: a path left out because another group already covers it is seen through the wrong filter)
    nw = 0
    for raw in f.user_bodies():
        for bb, t in raw.calls():
            if not re.search(r"Watcher>?::watch$", t["callee"]["base"]) or f.is_derived(raw):
                continue
            nw += 1
            # (a `watch` wrapped in a helper is judged where the helper is called)
            def under_iteration(body, at_bb, depth=0):
                st = iteration_context(f, body, at_bb)
                if st or depth >= 3:
                    return [(body, at_bb, st)]
                fn_name = r.fn_of(r.outer_fn(body)).name
                out = []
                for (cn, cbb) in f.cg.call_sites.get(fn_name, ()):
                    if cbb is not None and cn in f.bodies and not f.is_derived(f.bodies[cn]):
                        out += under_iteration(f.bodies[cn], cbb, depth + 1)
                return out or [(body, at_bb, st)]
            found = under_iteration(raw, bb)
            steps = []
            for (_, _, st) in found:
                if not st:
                    steps = []
                    break
                steps = steps or st
                if [c for c in atom_callres(st[0][2]) if re.search(RESTRICTING, c)]:
                    steps = st
                    break
            inner = steps[0] if steps else None
            restricted = sorted(c for c in atom_callres(inner[2]) if re.search(RESTRICTING, c)) if inner else []
            ctx.check(inner is not None and not restricted, f"{short(r.fn_of(r.outer_fn(raw)).name)}/every-path-watched", [site(raw, bb)],
                      "the paths of a group are not all handed to the file watcher" + (f" (restricted by {[short(c) for c in restricted]})" if restricted else " (`watch` is not called under an iteration over the paths)") +
                      ": changes under a declared path are seen by no watcher, or only through another group's extension filter", props=["C13", "C06", "C15"])
    ctx.need(nw >= 1, "call of the notification back-end's `watch`")
    # the per-path lister is called once for every declared path of every resource: each of its call sites sits under iterations (loops / iterator
    # adaptors given a closure) none of which is restricted
    level = list(r.listers())
    seen_fns = set(level)
    for depth in range(3):
        nxt = []
        for ln in level:
            for (cn, bb) in f.cg.call_sites.get(ln, ()):
                raw = f.bodies[cn]
                if bb is None or f.is_derived(raw):
                    continue
                steps = iteration_context(f, raw, bb)
                restricted = sorted({c for (_, what, at) in steps for c in atom_callres(at) if re.search(RESTRICTING, c)} | {w for (_, w, at) in steps if re.search(RESTRICTING, "::" + w)})
                outer = r.fn_of(r.outer_fn(raw)).name
                if depth == 0 or steps:
                    ctx.check((bool(steps) or depth > 0) and not restricted, f"{short(outer)}/all-paths", [site(raw, bb)],
                              "the listing does not range over every declared path / resource" + (f" (restricted by {restricted})" if restricted else " (the per-path lister is not called under an iteration)"), props=["C13"])
                if outer not in seen_fns:
                    seen_fns.add(outer)
                    nxt.append(outer)
        level = nxt


# ------------------------------------------------------------------ C15
@rule("C15.ONE-LISTER", ["C15", "C02"], """directory traversal happens in one function only; file state (recording and comparison) and filtered cleaning obtain file sets through it""", "K4", floor=3)
def one_lister(ctx):
    r = ctx.r
    f = ctx.f
    ls = r.listers()
    ctx.check(len(ls) == 1, "single-lister", [f.bodies[x].loc() for x in ls], f"directory traversal happens in {len(ls)} functions: state, cleaning and watching could disagree on what a resource denotes")
    for b in f.user_bodies():
        for bb, t in b.calls():
            if t["callee"]["base"].endswith("fs::read_dir") or t["callee"]["base"].endswith("::read_dir"):
                ctx.bad(f"{short(b.name)}/read_dir", [site(b, bb)], "a second directory traversal outside the lister")
    users = 0
    for b in f.user_bodies():
        if not b.coroutine:
            continue
        for a in awaits(b):
            if a.callee in f.bodies and set(ls) & f.cg.reach([a.callee]) and r.outer_fn(b).name not in {x for x in f.cg.reach(ls)} and not (set(ls) & {r.outer_fn(b).name}):
                outer = r.outer_fn(b).name
                if any(outer == x or outer in f.cg.reach([x]) and False for x in ls):
                    continue
                if set(ls) & f.cg.reach([outer]) and outer not in ls and not _is_listing_wrapper(ctx, outer, ls):
                    users += 1
                    ctx.ok(f"{short(outer)}/uses-lister", [site(b, a.into_bb)])
    ctx.check(users >= 3, "users", [], f"only {users} consumer(s) of the lister found (state recording, state comparison and filtered cleaning expected)")


def _is_listing_wrapper(ctx, name, ls):
    """local fn returning HashSet<PathBuf> that only forwards to the lister"""
    b = ctx.f.bodies.get(name)
    return b is not None and "HashSet<async_std::path::PathBuf>" in (ctx.f.coroutine_of(name).ret if ctx.f.coroutine_of(name) else b.ret)


@rule("C15.SAME-PREDICATE", ["C15", "C16"], """the lister and the watcher's callback filter with the same extension predicate, and both exclude the work directory through predicates comparing with
      the same constant""", "K8", floor=3)
def same_predicate(ctx):
    r = ctx.r
    f = ctx.f
    preds = {b.name for b in r.extension_predicates()}
    ctx.check(len(preds) == 1, "one-extension-predicate", [f.bodies[p].loc() for p in preds], f"{len(preds)} extension predicates exist")
    ls = r.listers()
    lreach = set()
    for l in ls:
        lreach |= f.cg.reach([l])
    cbs = r.notify_callbacks()
    ctx.need(cbs, "notify callback")
    creach = set()
    for (cb, p, bb) in cbs:
        creach |= f.cg.reach([cb.name])
    ctx.check(bool(preds & lreach), "lister-uses-predicate", [], "the lister does not apply the extension predicate")
    ctx.check(bool(preds & creach), "callback-uses-predicate", [], "the watcher callback does not apply the extension predicate the lister uses")
    # work-dir predicates: bool fns whose body compares with WORK_DIR_NAME
    wpreds = {b.name: b for b in f.user_bodies() if any(any(a[0] == "constdef" and a[1].endswith("WORK_DIR_NAME") for a in b.prov.operand_atoms(x)) for bb, t in b.calls() for x in t["args"]) and
              (f.bodies[ctx.r.outer_fn(b).name].ret == "bool")}
    outer = {r.outer_fn(b).name for b in wpreds.values()}
    ctx.check(bool(outer & lreach), "lister-prunes-workdir", [], "the lister does not exclude the work directory")
    ctx.check(bool(outer & creach), "callback-rejects-workdir", [], "the watcher callback does not reject paths inside the work directory")
    # a work-dir predicate says "yes" only through the comparison with the constant: a name it cannot read (no file name, not UTF-8, not under the
    # project) is *not* the work directory - otherwise such directories are pruned and such events swallowed
    for on in sorted(outer):
        for b in subtree(f, on):
            for bb, t in b.calls():
                d = callee_decl(t)
                if re.search(r"Iterator>?::(skip|take|step_by|skip_while|take_while|nth|last|rev)(::<.*>)?$", d) or re.search(r"Path::(parent|file_name|extension|file_stem)$", callee_base(t)):
                    # the test must look at every component of the path (the directory itself as well as what lies beneath it)
                    if re.search(r"Iterator>?::(skip|take|step_by|skip_while|take_while|nth|last)(::<.*>)?$", d) and f.bodies[on].ret == "bool" and "Path" in f.bodies[on].locals[1]["ty"]:
                        ctx.bad(f"{short(on)}/every-component", [site(b, bb)],
                                f"the work-dir test skips part of the path (`{d.split('::')[-1]}`): e.g. events on the work directory itself are not recognised and trigger a rebuild loop")
                dflt = None
                if re.search(r"Option::<.*>::unwrap_or(::<.*>)?$|Result::<.*>::unwrap_or(::<.*>)?$", d) and len(t["args"]) > 1:
                    dflt = const_val(t["args"][1])
                elif re.search(r"Option::<.*>::map_or(::<.*>)?$|Result::<.*>::map_or(::<.*>)?$", d) and len(t["args"]) > 1:
                    dflt = const_val(t["args"][1])
                elif re.search(r"Option::<.*>::is_none_or(::<.*>)?$", d):
                    dflt = "true"
                if dflt is not None:
                    ctx.check(dflt == "false", f"{short(on)}/unreadable-name-is-not-workdir", [site(b, bb)],
                              "a name the work-dir predicate cannot read counts as the work directory: such directories are pruned from every listing (or such events ignored)")
            if b.ret == "bool":
                def is_name_test(d):
                    return d[0] == "call" and (d[1].endswith("::eq") or "PartialEq" in d[1]) and any(any(a[0] == "constdef" and a[1].endswith("WORK_DIR_NAME") for a in x) for x in d[2])
                Geq = guard_region(b, is_name_test, True)
                for (bb, st) in [(blk["id"], st) for blk in b.normal_blocks() for st in blk["stmts"] if st["lhs"]["local"] == 0 and not st["lhs"]["proj"]]:
                    if st["rv"]["k"] == "use" and const_val(st["rv"]["op"]) == "true" and bb not in Geq:
                        ctx.bad(f"{short(on)}/constant-true", [site(b, bb)], "the work-dir predicate returns a constant `true` on a path that has not compared a name with the work-dir name")


@rule("C15.PREDICATE-ATOMS", ["C15"], """the extension predicate accepts a file when there is no filter or when its *file name* ends with one of the extensions""", "K2", floor=2)
def predicate_atoms(ctx):
    r = ctx.r
    f = ctx.f
    for p in r.extension_predicates():
        # the predicate's own code: its closures and the local helpers it calls (with their closures)
        bodies = subtree(f, p.name)
        for x in sorted(f.cg.reach([p.name], cross_spawn=False)):
            if x in f.bodies and not f.is_derived(f.bodies[x]) and f.bodies[x] not in bodies:
                bodies.append(f.bodies[x])
        ends = []
        for b in bodies:
            for bb, t in b.calls():
                if re.search(r"str>::ends_with|impl str>::ends_with", callee_base(t)):
                    ends.append((b, bb, t))
        ctx.check(bool(ends), f"{short(p.name)}/suffix-test", [site(b, bb) for b, bb, t in ends] or [p.loc()], "the extension predicate does not compare with `ends_with` (e.g. compares `extension()`, which breaks multi-dot extensions)")
        fname = any(t["callee"]["base"].endswith("Path::file_name") for b in bodies for bb, t in b.calls())
        ctx.check(fname, f"{short(p.name)}/file-name", [p.loc()], "the extension predicate does not test the file *name*")
        STRICT = r"(OsStr|Path)::to_str$|OsString::into_string$"
        strict = [(b, bb) for b in bodies for bb, t in b.calls() if re.search(STRICT, t["callee"]["base"]) or
                  any(a["k"] == "const" and "fn" in a and re.search(STRICT, a["fn"].split("::<")[0]) for a in t["args"])]   # also when passed as a function value (`.and_then(OsStr::to_str)`)
        ctx.check(not strict, f"{short(p.name)}/any-file-name", [site(b, bb) for b, bb in strict] or [p.loc()], "the file name is converted with a fallible UTF-8 conversion: a file whose name is not valid UTF-8 never matches its extension and silently drops out of state, cleaning and watching")
        # no-filter case accepted: is_none_or / explicit None edge returning true
        nofilter = any(re.search(r"Option::<.*>::(is_none_or|map_or)(::<.*>)?$", callee_decl(t)) for b in bodies for bb, t in b.calls()) or \
            any(e.label and e.label[0] == "variant" and e.label[2] == ("None",) for e in p.edges)
        anyext = any(re.search(r"Iterator>::any(::<.*>)?$", callee_decl(t)) for b in bodies for bb, t in b.calls())
        # ... or an explicit loop over the extensions around the suffix test
        anyext = anyext or any(bb in blks for (b, bb, t) in ends for (nbb, sbb, ne, se, blks, it_atoms) in for_loops(b))
        ctx.check(nofilter and anyext, f"{short(p.name)}/shape", [p.loc()], "the predicate is not `no filter, or any extension matches`")
        # nothing else about the file decides: the only thing the predicate asks of the path is its file name (`extension()` is None for `.env`, `file_stem`,
        # `to_str`, the file system ... all make some name that ends with a declared extension drop out)
        other = []
        for b in bodies:
            discr = {e.label[2] for e in b.edges if e.label and e.label[0] == "bool" and e.label[2] is not None} | \
                    {e.label[3]["local"] for e in b.edges if e.label and e.label[0] == "variant" and len(e.label) > 3 and isinstance(e.label[3], dict)}
            for bb, t in b.calls():
                base = t["callee"]["base"]
                if not re.search(r"\bPath::\w+$", base) or re.search(r"Path::(file_name|display|to_string_lossy|as_ref|as_os_str|new)$", base) or not t["args"] or t.get("dest") is None:
                    continue
                at = b.prov.operand_atoms(t["args"][0], interproc=False)
                if ("param", 1) in at or any(a[0] == "field" and a[1].startswith("{env of") for a in at):
                    if b.prov.flows_forward(t["dest"]["local"]) & {x for x in discr if isinstance(x, int)}:
                        other.append((b, bb, base))
        ctx.check(not other, f"{short(p.name)}/only-the-file-name", [site(b, bb) for b, bb, _ in other] or [p.loc()],
                  "the predicate also decides on " + ", ".join(sorted({short(c) for _, _, c in other})) + ": a file whose name ends with a declared extension can be left out "
                  "(e.g. `.env` has no `extension()`)")


@rule("C15.REGULAR-FILES", ["C15"], """the lister keeps an entry only if it is a regular file and matches the extension predicate, prunes directories named like the work directory, and
      drops walk errors instead of failing""", "K2", floor=3)
def regular_files(ctx):
    r = ctx.r
    f = ctx.f
    preds = {b.name for b in r.extension_predicates()}
    for ln in r.listers():
        bodies = subtree(f, ln)
        extra = {x for x in f.cg.reach([ln]) if x not in {b.name for b in bodies} and x in f.bodies and not f.is_derived(f.bodies[x]) and x not in preds and
                 r.outer_fn(f.bodies[x]).name not in preds and f.bodies[x].file == f.bodies[ln].file}
        bodies = bodies + [f.bodies[x] for x in sorted(extra)]
        calls = [(b, bb, t) for b in bodies for bb, t in b.calls()]
        isfile = [(b, bb) for b, bb, t in calls if t["callee"]["base"].endswith("Path::is_file")]
        # is_file must be the value returned by a filter closure (or guard the Some)
        ok_file = False
        for (b, bb) in isfile:
            ro = [o for p in enumerate_paths(b)[:50] for o in ret_origins(b, p)]
            if any(o[0] == "call" and o[1].endswith("Path::is_file") for o in ro) or guard_region(b, lambda d: d[0] == "call" and d[1].endswith("Path::is_file"), True):
                ok_file = True
        ctx.check(ok_file, f"{short(ln)}/is-file", [site(b, bb) for b, bb in isfile] or [f.bodies[ln].loc()], "the lister keeps entries that are not regular files (directories would be hashed/removed)")
        # (directly, or through a small wrapper - `resource.accepts(&path)`)
        pc = [(b, bb) for b, bb, t in calls if callee_base(t) in preds or (callee_base(t) in f.bodies and preds & f.cg.reach([callee_base(t)], cross_spawn=False))]
        ctx.check(bool(pc), f"{short(ln)}/extension-filter", [site(b, bb) for b, bb in pc] or [f.bodies[ln].loc()], "the lister does not apply the extension predicate")
        fe = [(b, bb, t) for b, bb, t in calls if t["callee"]["base"].endswith("IntoIter::filter_entry")]
        ok_prune = False
        for (b, bb, t) in fe:
            for cb in closure_bodies_passed(b, t):
                ro = [o for p in enumerate_paths(cb)[:50] for o in ret_origins(cb, p)]
                negated = any(o[0] == "not" for o in ro)
                # ... of a work-dir predicate: a local fn (possibly spliced into the closure's view) that compares with WORK_DIR_NAME
                def mentions_workdir(body):
                    return any(any(a[0] == "constdef" and a[1].endswith("WORK_DIR_NAME") for a in body.prov.operand_atoms(y)) for _, tt in body.calls() for y in tt["args"]) or \
                        any(any(c.get("def", "").endswith("WORK_DIR_NAME") for c in rv_sources(st["rv"])[1]) for blk in body.normal_blocks() for st in blk["stmts"])
                wd = mentions_workdir(cb) or any(callee_base(tt) in f.bodies and any(mentions_workdir(f.bodies[x]) for x in f.cg.reach([callee_base(tt)])) for _, tt in cb.calls())
                if negated and wd:
                    ok_prune = True
        ctx.check(ok_prune, f"{short(ln)}/prune-workdir", [site(b, bb) for b, bb, t in fe] or [f.bodies[ln].loc()], "the walk does not prune the work directory (`filter_entry(|e| !is_work_dir(e))`)")
        # errors dropped: no `?`/unwrap on walk entries
        bad = [(b, bb) for b, bb, t in calls if re.search(r"Result::<walkdir::DirEntry, walkdir::Error>::(unwrap|expect)$", callee_decl(t))]
        ctx.check(not bad, f"{short(ln)}/walk-errors-dropped", [site(b, bb) for b, bb in bad] or [f.bodies[ln].loc()], "a walk error (e.g. a missing declared path) panics instead of contributing nothing")


@rule("C15.FILTER-PAIRING", ["C15", "C13", "C16", "C06", "C02"], """each declared path keeps the extension filter of its own resource: no collection is keyed by path with a filter as value, and filters of
      different resources are never accumulated into one collection (grouping paths under a key made of the resource's own filter is the accepted idiom)""", "K4", floor=1)
def filter_pairing(ctx):
    f = ctx.f
    n = 0
    for b in f.user_bodies():
        for bb, t in b.calls():
            decl = callee_decl(t)
            m = re.search(r"::(insert|or_insert|or_insert_with|or_default|extend|extend_from_slice|push|push_back|append|entry|from_iter|collect)(::<.*>)?$", decl)
            if not m or len(t["args"]) < 1:
                continue
            api = m.group(1)
            vals = t["args"][1:] if api not in ("collect", "from_iter") else t["args"]
            for a in vals:
                at = b.prov.operand_atoms(a)
                ext = atom_has_field(at, "extensions", "FilesResource")
                pth = atom_has_field(at, "paths", "FilesResource")
                if not (ext or pth):
                    continue
                n += 1
                inst = f"{short(b.name)}/{api}@{bb}"
                if api == "entry":
                    ctx.check(ext or not pth, f"{short(b.name)}/keyed-by-own-filter", [site(b, bb)], "a collection is keyed by path: when two resources name the same path with different filters, one filter is lost")
                elif api in ("collect", "from_iter"):
                    # collecting (filter, paths) pairs into a map overwrites equal keys instead of merging them
                    is_map = re.search(r"(Hash|BTree)Map<", b.locals[t["dest"]["local"]]["ty"]) is not None if t.get("dest") else False
                    ctx.check(not (is_map and ext and pth), f"{short(b.name)}/pairs-not-collected-into-map", [site(b, bb)],
                              "(filter, paths) pairs are collected into a map: resources with equal filters overwrite each other and their paths are lost")
                else:
                    ctx.check(pth or not ext, f"{short(b.name)}/filters-not-merged", [site(b, bb)],
                              "extension filters of different resources are accumulated into one collection (or stored per path): a path is no longer filtered by its own resource's filter")
    ctx.need(n >= 1, "a collection built from the paths / filters of file resources")


@rule("C15.NORMALISE", ["C15", "C12"], """declared extensions are normalised: empty entries dropped, a missing leading dot added, an empty list means no filter""", "K2", floor=3)
def normalise(ctx):
    f = ctx.f
    fns = [b for b in f.user_bodies() if b.kind == "Fn" and "Option<std::vec::Vec<std::string::String>>" in (b.locals[1]["ty"] if b.argc >= 1 else "") and "BTreeSet<std::string::String>" in b.ret]
    ctx.need(fns, "extension normalisation fn(Option<Vec<String>>) -> Option<BTreeSet<String>>")
    for fn in fns:
        bodies = subtree(f, fn.name)
        calls = [(b, bb, t) for b in bodies for bb, t in b.calls()]
        empties = [(b, bb) for b, bb, t in calls if re.search(r"String::is_empty$", callee_base(t))]
        ok_empty = False
        for (b, bb) in empties:
            ro = [o for p in enumerate_paths(b)[:20] for o in ret_origins(b, p)]
            if any(o[0] == "not" for o in ro):
                ok_empty = True
        if not ok_empty:
            # loop form: `if ext.is_empty() { continue }` - nothing is put into the result except under a false `is_empty()`
            for b in bodies:
                ins = [bb for bb, t in b.calls() if re.search(r"(BTreeSet|HashSet|Vec)::<.*>::(insert|push)$", callee_decl(t))]
                Gne = guard_region(b, lambda d: d[0] == "call" and re.search(r"(String|str>)::is_empty$", d[1]) is not None, False)
                if ins and all(bb in Gne for bb in ins):
                    ok_empty = True
        ctx.check(ok_empty, f"{short(fn.name)}/drop-empty", [site(b, bb) for b, bb in empties] or [fn.loc()], "empty extension entries are not dropped (an empty entry would match every file)")
        dots = [(b, bb, t) for b, bb, t in calls if re.search(r"str>::starts_with", callee_base(t)) and any(const_val(a) == "'.'" or (const_val(a) or "").strip('"') == "." for a in t["args"])]
        ok_dot = False
        for (b, bb, t) in dots:
            Gf = guard_region(b, lambda d: d[0] == "call" and "starts_with" in d[1], False)
            fmt = [x for x, tt in b.calls() if x in Gf and (tt["callee"]["base"].endswith("fmt::format") or "format" in tt["callee"]["base"])]
            consts = [st for x in Gf for st in b.stmts(x) if st["rv"]["k"] == "use" and st["rv"]["op"]["k"] == "const" and "." in st["rv"]["op"]["val"] and "\\xc0" in st["rv"]["op"]["val"]]
            if fmt and consts:
                ok_dot = True
        ctx.check(ok_dot, f"{short(fn.name)}/leading-dot", [site(b, bb) for b, bb, t in dots] or [fn.loc()], "a missing leading dot is not added to a declared extension")
        # order of the two steps: an entry is tested for emptiness as written, *before* the dot is added (afterwards "" has become "." and survives)
        def clos_of(b, t):
            return [a[1] for x in t["args"][1:] for a in b.prov.operand_atoms(x, interproc=False) if a[0] == "closure"]
        for b in bodies:
            filt_calls = [(bb, t) for bb, t in b.calls() if re.search(r"Iterator>?::filter(::<.*>)?$", callee_decl(t)) and
                          any(any(re.search(r"String::is_empty$|str>::is_empty$", callee_base(tt)) for _, tt in f.bodies[c].calls()) for c in clos_of(b, t) if c in f.bodies)]
            map_calls = [(bb, t) for bb, t in b.calls() if re.search(r"Iterator>?::map(::<.*>)?$", callee_decl(t)) and
                         any(any("starts_with" in callee_base(tt) for _, tt in f.bodies[c].calls()) for c in clos_of(b, t) if c in f.bodies)]
            for (fb_, ft) in filt_calls:
                for (mb_, mt) in map_calls:
                    filter_after_map = operand_local(ft["args"][0]) in b.prov.flows_forward(mt["dest"]["local"])
                    ctx.check(not filter_after_map, f"{short(fn.name)}/empty-dropped-before-dot", [site(b, fb_)],
                              "empty entries are filtered out only after the leading dot was added: `\"\"` becomes `\".\"`, survives, and turns `no filter` into a filter matching names ending in a dot")
        setempty = [(b, bb) for b, bb, t in calls if re.search(r"BTreeSet::<.*>::is_empty$", callee_decl(t))]
        filt = [(b, bb) for b, bb, t in calls if re.search(r"Option::<.*BTreeSet.*>::filter", callee_decl(t))]
        ctx.check(bool(setempty) and (bool(filt) or True), f"{short(fn.name)}/empty-set-is-none", [site(b, bb) for b, bb in setempty] or [fn.loc()], "an empty extension list is not turned into `no filter`")


@rule("C15.NO-PANIC", ["C15", "C16"], """the lister and the extension predicate contain no panic-capable site: no file name can make them panic""", "K9", floor=0)
def no_panic_lister(ctx):
    r = ctx.r
    f = ctx.f
    roots = set(r.listers()) | {b.name for b in r.extension_predicates()}
    scope = {x for x in f.cg.reach(roots) if x in f.bodies and not f.is_derived(f.bodies[x])}
    ctx.need(len(scope) >= 4, f"bodies of the lister and the predicate (found {len(scope)})")
    n = 0
    for x in sorted(scope):
        b = f.bodies[x]
        for (bb, kind, detail, ext) in panic_sites(f, b):
            if ext and kind == "panic":
                continue
            n += 1
            ctx.bad(f"{short(x)}/{kind}", [site(b, bb)], f"panic-capable `{kind}` in the lister/predicate ({detail}): a file name or walk entry could panic")
    if not n:
        ctx.ok("lister+predicate", [f"{len(scope)} bodies examined"], "no panic-capable site")


# ------------------------------------------------------------------ C16
def _table_literals(f, defpath):
    """literals of a constant array (`const VIM_SWAP_SUFFIXES: [&str; 2] = [".swp", ".swx"]`)"""
    cb = f.bodies.get(defpath)
    out = []
    if cb is not None and cb.kind in ("Const", "Static"):
        for blk in cb.normal_blocks():
            for st in blk["stmts"]:
                if st["rv"]["k"] == "agg" and st["rv"].get("array"):
                    out += [(const_val(o_) or "").strip("'\"") for o_ in st["rv"]["ops"]]
    return out


def _tables_of(x, t_):
    return [a_[1] for y in t_["args"][:1] for a_ in x.prov.operand_atoms(y, interproc=False) if a_[0] == "constdef"]


def tmp_file_predicates(f):
    """bool fns of one argument that test a name against the Vim swap suffix, written at the call or held in a constant table"""
    return [x for x in f.user_bodies() if x.ret == "bool" and x.argc == 1 and x.kind == "Fn" and
            any(any("swp" in (const_val(a) or "") for a in tt["args"]) or any("swp" in l_ for d_ in _tables_of(x, tt) for l_ in _table_literals(f, d_)) for _, tt in x.calls())]


@rule("C16.FILTER-ATOMS", ["C16"], """the callback keeps a path only if it is not an editor temporary, not inside the work directory and matches the extension predicate; it notifies
      only when some path was kept""", "K2", floor=2)
def filter_atoms(ctx):
    r = ctx.r
    f = ctx.f
    preds = {b.name for b in r.extension_predicates()}
    for (cb, parent, pbb) in r.notify_callbacks():
        filters = [(bb, t) for bb, t in cb.calls() if re.search(r"Iterator>::filter(::<.*>)?$", callee_decl(t))]
        ctx.need(filters, "`filter` over the event paths in the callback")
        for bb, t in filters:
            for fb in closure_bodies_passed(cb, t):
                tps, n = true_paths(fb)
                ctx.need(tps, "true-returning path of the filter closure")
                bad = []
                tmp_fns = {x.name for x in tmp_file_predicates(f)}
                wd_fns = {ctx.r.outer_fn(x).name for x in f.user_bodies() if any(any(a[0] == "constdef" and a[1].endswith("WORK_DIR_NAME") for a in x.prov.operand_atoms(y)) for _, tt in x.calls() for y in tt["args"])
                          and f.bodies[ctx.r.outer_fn(x).name].ret == "bool" and "Path" in f.bodies[ctx.r.outer_fn(x).name].locals[1]["ty"]}
                # zinoma's own files are *anywhere below* a work directory: the test used on event paths looks at every component of the path (the other
                # work-dir predicate - "is this entry a work directory", last component only - is the one for pruning the directory walk)
                wd_deep = {x for x in wd_fns if any(re.search(r"Path::(components|ancestors|iter)$", tt["callee"]["base"]) for y in [x] + sorted(f.cg.reach([x], cross_spawn=False)) if y in f.bodies
                                                    for _, tt in f.bodies[y].calls())}
                for (p, facts, ro) in tps:
                    a1 = has_fact(facts, "bool", False, is_call_of(lambda c: c in tmp_fns))
                    a2 = has_fact(facts, "bool", False, is_call_of(lambda c: c in wd_deep))
                    a3 = any(o[0] == "call" and o[1] in preds for o in ro) or has_fact(facts, "bool", True, is_call_of(lambda c: c in preds))
                    if not (a1 and a2 and a3):
                        bad.append((p, a1, a2, a3))
                ctx.check(not bad, f"{short(fb.name)}/keeps-only-relevant", [fb.loc()],
                          ("a path is kept without " + ", ".join(w for w, ok in zip(["`!is_tmp_editor_file`", "`!is_in_work_dir`", "`matches_extensions`"], bad[0][1:]) if not ok)) if bad else "",
                          detail=f"{n} paths, {len(tps)} can return true; tmp={sorted(short(x) for x in tmp_fns)} wd={sorted(short(x) for x in wd_fns)}")
        sends = [s for s in send_calls(cb) if tyname(s[2]) == "TargetInvalidatedMessage"]
        ctx.need(sends, "notification send in the callback")
        G = guard_region(cb, lambda d: d[0] == "call" and d[1].endswith("::is_empty"), False)
        for s in sends:
            ctx.check(s[0] in G, f"{short(cb.name)}/notify-only-if-relevant", [site(cb, s[0])], "the callback notifies even when no relevant path was in the event (own state writes / temporaries would trigger rebuild loops)")


@rule("C16.WORKDIR-PREDICATE", ["C16", "C06"], """the in-work-directory predicate compares whole path components with the work directory name: the name never takes
      part in a substring / prefix / suffix test of the textual path (`site.zinoma.conf` is an ordinary input file)""", "K4", floor=1)
def workdir_predicate(ctx):
    r = ctx.r
    f = ctx.f
    def uses_name(x, t):
        return any(any(a[0] == "constdef" and a[1].endswith("WORK_DIR_NAME") for a in x.prov.operand_atoms(y)) for y in t["args"])
    preds = {}
    for x in f.user_bodies():
        o = f.bodies[r.outer_fn(x).name]
        if o.ret == "bool" and o.argc >= 1 and "Path" in o.locals[1]["ty"] and any(uses_name(x, t) for _, t in x.calls()):
            preds.setdefault(o.name, []).append(x)
    ctx.need(preds, "predicate fn(path) -> bool that mentions WORK_DIR_NAME")
    textual = re.compile(r"(str>|String|OsStr|OsString|Cow<.*>)::(contains|starts_with|ends_with|find|rfind|matches|rmatches|match_indices|split\w*|strip_prefix|strip_suffix|trim_\w+)$")
    for name, bodies in sorted(preds.items()):
        bad = [(x, bb, t) for x in bodies for bb, t in x.calls() if uses_name(x, t) and textual.search(t["callee"]["base"])]
        ctx.check(not bad, f"{short(name)}/component-equality", [site(x, bb) for x, bb, _ in bad] or [f.bodies[name].loc()],
                  "the work directory name is searched for inside the text of the path (" + ", ".join(sorted({t["callee"]["base"] for _, _, t in bad})) +
                  "): files whose name merely contains it are taken for zinoma's own files and their changes never trigger the target")


@rule("C16.NOTIFY-UNCONDITIONAL", ["C16", "C06"], """once an event carries a relevant path the callback notifies: the only conditions between the callback's entry and the notification are 'the event is Ok'
      and 'some path was kept' (no event-kind filter, no debounce, no rate limit can swallow a relevant change)""", "K1", floor=1)
def notify_unconditional(ctx):
    r = ctx.r
    for (cb, parent, pbb) in r.notify_callbacks():
        sends = [s for s in send_calls(cb) if tyname(s[2]) == "TargetInvalidatedMessage"]
        ctx.need(sends, "notification send in the callback")
        for s in sends:
            # path-based (an early `return` under a disjunction of patterns dominates nothing): every decision taken on a path from the entry to the send
            paths = enumerate_paths(cb, stop_at={s[0]})
            paths = [p for p in paths if p and p[-1].dst == s[0]]
            ctx.need(paths, "path from the callback's entry to the notification")
            extra = {}
            for p in paths:
                for (k, v, o, e) in path_facts(cb, p):
                    if k == "bool":
                        descs = bool_atom_desc(cb, e.label[2])
                        # 'some path was kept': emptiness of the collection of kept *paths* itself - not of something derived from it that can lose entries
                        # (`join(kept.iter().flat_map(|p| p.to_str()))` is empty for a kept path whose name is not UTF-8)
                        def kept_is_empty(d):
                            if not (d[0] == "call" and d[1].endswith("::is_empty")):
                                return False
                            decl = callee_decl(cb.term(d[3])) if isinstance(d[3], int) else ""
                            lossy = [c for c in atom_callres(d[4][0] if len(d) > 4 and d[4] else ()) if
                                     re.search(r"::(take|skip|step_by|take_while|skip_while|nth|last|find|find_map|position|first|get|flat_map|filter_map|map_while|join|to_str|into_string)(::<.*>)?$", c)]
                            return "Path" in decl and not lossy
                        if conditions_within([(e, descs, v)], [(kept_is_empty, False)]):
                            extra[(e.src, e.dst)] = fmt_conds([(e, descs, v)])
                    else:
                        on_param = origin_matches(o, lambda x: x[0] == "param") and not origin_matches(o, lambda x: x[0] == "field" and any(n not in ("0", "Ok", "Err") for n in x[1]), through_fields=False)
                        if e.label[1] == "std::task::Poll" or path_ends(e.label[1] or "", "Level") or path_ends(e.label[1] or "", "LevelFilter"):
                            continue
                        if not (path_ends(e.label[1] or "", "Result") and v == ("Ok",) and on_param):
                            extra[(e.src, e.dst)] = f"{'/'.join(v)} of {(e.label[1] or '').split('::')[-1]}"
            # a decision both of whose outcomes lead to the notification does not condition it (e.g. how a log line is worded before the send)
            by_src = {}
            for (src, dst) in extra:
                by_src.setdefault(src, set()).add(dst)
            for src, dsts in by_src.items():
                outs = {e.dst for e in cb.succ.get(src, ()) if cb.term(e.dst)["k"] != "unreachable"}
                if outs and outs <= dsts:
                    for dst in dsts:
                        extra.pop((src, dst), None)
            ctx.check(not extra, f"{short(cb.name)}/only-relevance-guards", [site(cb, s[0])],
                      "the notification depends on a further decision (" + "; ".join(sorted(set(extra.values()))[:4]) + "): some relevant change can be swallowed", detail=f"{len(paths)} paths to the notification")


@rule("C16.NO-PANIC", ["C16"], """no panic-capable site in the watcher callback and everything it calls: no event or file name can kill the watcher thread""", "K9", floor=0)
def no_panic_callback(ctx):
    r = ctx.r
    f = ctx.f
    cbs = r.notify_callbacks()
    ctx.need(cbs, "notify callback")
    scope = set()
    for (cb, p, bb) in cbs:
        scope |= {x for x in f.cg.reach([cb.name]) if x in f.bodies and not f.is_derived(f.bodies[x])}
    ctx.need(len(scope) >= 6, f"bodies reachable from the callback (found {len(scope)})")
    n = 0
    for x in sorted(scope):
        b = f.bodies[x]
        for (bb, kind, detail, ext) in panic_sites(f, b):
            if ext and kind == "panic":
                continue
            n += 1
            ctx.bad(f"{short(x)}/{kind}@{bb}", [site(b, bb)], f"panic-capable `{kind}` reachable from the watcher callback ({detail}): one odd event or file name stops the watcher for good")
    if not n:
        ctx.ok("callback", [f"{len(scope)} bodies examined"], "no panic-capable site")


@rule("C16.NONBLOCKING-NOTIFY", ["C16"], """the callback never blocks the notification thread: its only channel operation is `try_send` on the invalidation sender""", "K6", floor=1)
def nonblocking_notify(ctx):
    r = ctx.r
    f = ctx.f
    for (cb, p, bb) in r.notify_callbacks():
        scope = {x for x in f.cg.reach([cb.name]) if x in f.bodies}
        bad = []
        tries = []
        for x in scope:
            b = f.bodies[x]
            for cbb, t in b.calls():
                base = t["callee"]["base"]
                if base in TASK_BLOCK_ON or re.search(r"Sender::<.*>::send(_blocking)?$", callee_decl(t)) or re.search(r"(Mutex|RwLock)(::<.*>)?::(lock|read|write)$", base) or re.search(r"mpsc::Receiver::<.*>::recv$", callee_decl(t)) or base == "std::thread::sleep":
                    bad.append((b, cbb, base))
                if re.search(r"Sender::<.*TargetInvalidatedMessage>::try_send$", callee_decl(t)):
                    tries.append((b, cbb))
        ctx.check(not bad and bool(tries), f"{short(cb.name)}", [site(b, x) for b, x in tries] + [site(b, x) for b, x, _ in bad], "the callback blocks (or does not notify with `try_send`): the notification thread would stall and later changes would be missed" + (f" ({bad[0][2]})" if bad else ""))


@rule("C16.TMP-ATOMS", ["C16"], """editor temporaries are recognised: `*~`, `.*.swp`, `.*.swx`""", "K3", floor=3)
def tmp_atoms(ctx):
    f = ctx.f
    def table_literals(defpath):
        return _table_literals(f, defpath)
    fns = tmp_file_predicates(f)
    ctx.need(fns, "temporary-file predicate")
    for b in fns:
        tps, n = true_paths(b)
        def lit_test(method, lit, b=b):
            def via_table(o):
                # `TABLE.iter().any(|s| name.<method>(s))` over a constant array holding the literal: true when the name passes the test for some entry
                if not (o[1].endswith("::any") and o[3]["args"]):
                    return False
                recv = b.prov.operand_atoms(o[3]["args"][0], interproc=False)
                if not any(lit in table_literals(a_[1]) for a_ in recv if a_[0] == "constdef") or [c for c in atom_callres(recv) if re.search(RESTRICTING, c)]:
                    return False
                cbs = closure_bodies_passed(b, o[3])
                def tests_entry(o2, cb):
                    return o2[0] == "call" and method in o2[1] and len(o2[3]["args"]) > 1 and ("param", 2) in cb.prov.operand_atoms(o2[3]["args"][1], interproc=False)
                return bool(cbs) and all(all(any(tests_entry(o2, cb) for o2 in ret_origins(cb, p2)) for p2 in enumerate_paths(cb)) for cb in cbs)
            def p(o):
                return o[0] == "call" and ((method in o[1] and any((const_val(a) or "").strip("'\"") == lit for a in o[3]["args"])) or via_table(o))
            return p
        def holds(fa, ro, pred):
            # the test is true on this path: taken as a true edge, or it is the very value returned (`a || b` returns b)
            return has_fact(fa, "bool", True, pred) or origin_matches(ro, pred)
        w_tilde = any(holds(fa, ro, lit_test("ends_with", "~")) for (p, fa, ro) in tps)
        w_swp = any(holds(fa, ro, lit_test("starts_with", ".")) and holds(fa, ro, lit_test("ends_with", ".swp")) for (p, fa, ro) in tps)
        w_swx = any(holds(fa, ro, lit_test("starts_with", ".")) and holds(fa, ro, lit_test("ends_with", ".swx")) for (p, fa, ro) in tps)
        ctx.check(w_tilde, f"{short(b.name)}/tilde", [b.loc()], "`*~` is not recognised as an editor temporary")
        ctx.check(w_swp, f"{short(b.name)}/swp", [b.loc()], "`.*.swp` is not recognised as an editor temporary")
        ctx.check(w_swx, f"{short(b.name)}/swx", [b.loc()], "`.*.swx` is not recognised as an editor temporary")


@rule("C16.OWN-WRITES-IN-WORKDIR", ["C16", "C18"], """every file or directory zinoma itself creates lies in the work directory (paths from the state-path / work-dir-path functions), which the watcher ignores""", "K4", floor=2)
def own_writes_in_workdir(ctx):
    r = ctx.r
    f = ctx.f
    spf = {b.name for b in r.state_path_fns()}
    wdf = {b.name for b in r.work_dir_path_fns()}
    sites = r.fs_sites(lambda n: "write" if is_fs_write(n) else None)
    ctx.need(len(sites) >= 2, f"fs write sites (found {len(sites)})")
    for sp in r.state_path_fns():
        ctx.check(bool(atom_callres(sp.prov.atoms(0)) & wdf), f"{short(sp.name)}/under-workdir", [sp.loc()], "the state file path is not under the work directory: writing it would be seen by the watcher as a change of the sources")
    for (b, bb, t, c) in sites:
        # judged in every context the write is spliced into (a `fn encode_to(path, ..)` helper gets its path from its callers)
        copies = []
        for root in r.containers(b):
            rv = r.V(root)
            copies += [(rv, nb) for nb in ([bb] if root.name == b.name else rv.locate_all(b.name, bb))]
        copies = copies or [(b, bb)]
        ok = True
        for (rv, nb) in copies:
            tv = rv.term(nb)
            at = rv.prov.operand_atoms(tv["args"][0]) if tv["args"] else set()
            if not (bool(atom_callres(at) & (spf | wdf)) or r._closure_captures_from(rv, spf | wdf) or r._closure_captures_from(b, spf | wdf)):
                ok = False
        ctx.check(ok, f"{short(r.outer_fn(b).name)}/{t['callee']['base'].split('::')[-1]}", [site(b, bb)], "zinoma writes a file outside its work directory: its own write could trigger a rebuild loop in watch mode")


# ------------------------------------------------------------------ C18
@rule("C18.STATE-PATH-PURE", ["C18", "C03", "C08"], """the state file path is a function of the declaring project's directory and the target id only (plus constants)""", "K5", floor=1)
def state_path_pure(ctx):
    r = ctx.r
    f = ctx.f
    sp = r.state_path_fns()
    ctx.need(len(sp) >= 1, f"state path function (found {len(sp)})")
    # (usually one; a second one - the scratch file a new record is written to before being renamed into place - obeys the same rule)
    for b in sp:
        at = b.prov.atoms(0)
        fields = {a[2] for a in at if a[0] == "field" and path_ends(a[1], "TargetMetadata")}
        other_fields = {(a[1], a[2]) for a in at if a[0] == "field" and not path_ends(a[1], "TargetMetadata") and not a[1].startswith("(tuple") and not path_ends(a[1], "TargetId")}
        statics = {a[1] for a in at if a[0] == "static"}
        ext = {c for c in atom_callres(at) if re.search(r"std::env::|process::id|SystemTime|Instant|rand|current_dir|temp_dir", c)}
        inputs_ok = "project_dir" in fields and b.argc == 1
        split_sites = []
        if not inputs_ok and b.argc >= 2 and not fields:
            # the directory and the id come in as separate parameters: every place that supplies them (through any number of pass-through functions) must
            # supply the `project_dir` and the `id` of one and the same target
            def supplied(body, pidx, depth=0):
                """[(caller raw body, bb, {param index: operand})] of the outermost call sites that feed parameters `pidx` of `body`"""
                out = []
                fn = r.fn_of(body)
                for (c, cbb) in f.cg.call_sites.get(fn.name, ()):
                    if cbb is None or f.is_derived(f.bodies[c]) or f.bodies[c].term(cbb)["k"] != "call":
                        continue
                    cb = f.bodies[c]
                    ct = cb.term(cbb)
                    ops = {i: ct["args"][i - 1] for i in pidx if i - 1 < len(ct["args"])}
                    through = {}
                    for i, o in ops.items():
                        at_ = cb.prov.operand_atoms(o, interproc=False)
                        env = [a for a in at_ if a[0] == "field" and a[1].startswith("{env of")]
                        params = [a[1] for a in at_ if a[0] == "param"]
                        real = [a for a in at_ if a[0] in ("field", "callres") and not a[1].startswith("{env of")]
                        if not real and (params or env) and depth < 4:
                            # a pass-through: the caller's own parameter (directly, or captured by its async body)
                            outer = r.fn_of(cb)
                            if env:
                                names = [l.get("name") for l in outer.locals[1:outer.argc + 1]]
                                js = [names.index(a[2]) + 1 for a in env if a[2] in names]
                            else:
                                js = params
                            if js:
                                through[i] = js[0]
                    if len(through) == len(ops) and through:
                        inv = {}
                        for i, j in through.items():
                            inv[j] = i
                        for (cc, cbb2, ops2) in supplied(r.fn_of(cb), sorted(inv), depth + 1):
                            out.append((cc, cbb2, {inv[j]: o for j, o in ops2.items()}))
                    else:
                        out.append((cb, cbb, ops))
                return out
            dir_params = [i for i in range(1, b.argc + 1) if re.search(r"Path(Buf)?$", b.locals[i]["ty"].replace("&", "").strip())]
            id_params = [i for i in range(1, b.argc + 1) if re.search(r"Target(Id|Metadata)$", b.locals[i]["ty"].replace("&", "").strip())]
            sites_ = supplied(b, dir_params + id_params) if len(dir_params) == 1 and len(id_params) == 1 else []
            inputs_ok = bool(sites_)
            for (cb, cbb, ops) in sites_:
                d_at = cb.prov.operand_atoms(ops[dir_params[0]], interproc=False) if dir_params[0] in ops else set()
                i_at = cb.prov.operand_atoms(ops[id_params[0]], interproc=False) if id_params[0] in ops else set()
                same = {a[1] for a in d_at if a[0] == "localname"} & {a[1] for a in i_at if a[0] == "localname"}
                good = atom_has_field(d_at, "project_dir", "TargetMetadata") and (atom_has_field(i_at, "id", "TargetMetadata") or any("TargetMetadata" in cb.locals[l]["ty"] for l in [operand_local(ops[id_params[0]])] if l is not None)) and bool(same)
                split_sites.append(site(cb, cbb))
                if not good:
                    inputs_ok = False
        ctx.check(inputs_ok and not ext and not statics, f"{short(b.name)}/inputs", split_sites[:6] or [b.loc()], props=["C18", "C03"], found=
                  f"the state path depends on something else than the target's project directory and id (fields {sorted(fields)}, statics {sorted(statics)}, external {sorted(ext)})")
        # the id goes in through Display of the metadata / id: a Display argument built from the parameter
        def names_target(o):
            # the target itself (its Display prints the id) or its `id` field - not something computed from it
            return o[0] == "param" or (o[0] == "field" and o[1] and o[1][-1] == "id" and any(x[0] == "param" for x in o[2])) or \
                (o[0] == "field" and len(o[1]) == 1 and o[1][0].isdigit() and any(x[0] == "tuple" and int(o[1][0]) < len(x[1]) and any(names_target(y) for y in x[1][int(o[1][0])]) for x in o[2]))
        disp = any(t["callee"]["base"].endswith("Argument::<'_>::new_display") and operand_local(t["args"][0]) is not None and
                   any(names_target(o) for o in origins(b, operand_local(t["args"][0]))) for bb, t in b.calls())
        ctx.check(disp, f"{short(b.name)}/id", [b.loc()], "the state file name does not contain the target id")
        wd = {x.name for x in r.work_dir_path_fns()}
        ctx.check(bool(atom_callres(at) & wd), f"{short(b.name)}/in-workdir", [b.loc()], "the state file is not placed in the work directory of the declaring project", props=["C18", "C03"])
        # Display of TargetMetadata writes the id
        for x in f.user_bodies():
            if re.match(r"^<[\w:]*TargetMetadata as std::fmt::Display>::fmt$", x.name):
                ok = any(atom_has_field(x.prov.operand_atoms(a), "id") for bb, t in x.calls() for a in t["args"]) or "id" in {fl for blk in x.normal_blocks() for st in blk["stmts"] for p in rv_sources(st["rv"])[0] for fl in place_fields(p)}
                ctx.check(ok, "TargetMetadata-Display", [x.loc()], "Display of the target metadata does not print the id")


@rule("C18.ONLY-VIA-PATH-FN", ["C18"], """the state module opens, creates and removes only paths obtained from the state path function (and creates only the work directory of the same target)""", "K4", floor=3)
def only_via_path_fn(ctx):
    r = ctx.r
    f = ctx.f
    fns = set(state_read_fns(ctx)[0]) | set(state_delete_fns(ctx)[0]) | set(state_save_fns(ctx)[0])
    spf = {b.name for b in r.state_path_fns()}
    wdf = {b.name for b in r.work_dir_path_fns()}
    n = 0
    for fn in sorted(fns):
        for b in subtree(f, fn):
            for bb, t in b.calls():
                base = t["callee"]["base"]
                if is_fs_delete(base) or is_fs_write(base) or base.endswith("File::open") or base.endswith("Path::exists"):
                    n += 1
                    at = b.prov.operand_atoms(t["args"][0]) if t["args"] else set()
                    ok = bool(atom_callres(at) & (spf | wdf)) or r._closure_captures_from(b, spf | wdf)
                    ctx.check(ok, f"{short(fn)}/{base.split('::')[-1]}@{bb}", [site(b, bb)], "the state module touches a path that does not come from the state path function: one target's run could read or clobber another target's record")
    ctx.need(n >= 3, "fs operations of the state module")


@rule("C18.CANONICAL-DIRS", ["C18"], """project directories are canonicalised before they are used as identity: the root directory and every imported directory pass through the
      canonicalisation function before being inserted""", "K5", floor=2)
def canonical_dirs(ctx):
    f = ctx.f
    canon = [b for b in f.user_bodies() if any(t["callee"]["base"].endswith("canonicalize") for _, t in b.calls()) and b.kind == "Fn"]
    ctx.need(canon, "canonicalisation function")
    cn = {b.name for b in canon}
    n = 0
    for b in f.user_bodies():
        for bb, t in b.calls():
            if re.search(r"HashMap::<std::path::PathBuf, [\w:]*Project>::insert$", callee_decl(t)):
                n += 1
                at = b.prov.operand_atoms(t["args"][1])
                if atom_callres(at) & cn:
                    ctx.ok(f"{short(b.name)}/insert-key", [site(b, bb)], "canonicalised in place")
                    continue
                # the key is a parameter of the inserting fn: every call site must pass a canonicalised directory
                pidx = sorted(a[1] for a in b.prov.operand_atoms(t["args"][1], interproc=False) if a[0] == "param")
                # judged on the callers' own code: in a view the parameter of a spliced-in callee is bound to its (canonical) argument, and everything
                # computed from it - e.g. `dir.join(import)` - would look canonical to a flow-insensitive derivation
                def canonical_at_callers(fn_body, i, depth=0):
                    """parameter i of fn_body receives a canonicalised directory at every call site (through pass-through parameters of wrappers)"""
                    sites_ = [(f.bodies[c], cbb, f.bodies[c].term(cbb)) for (c, cbb) in f.cg.call_sites.get(ctx.r.fn_of(fn_body).name, ()) if cbb is not None and f.bodies[c].term(cbb)["k"] == "call"]
                    if not sites_ or depth > 4:
                        return False
                    for (cv, cbb, ct) in sites_:
                        if i - 1 >= len(ct["args"]):
                            return False
                        cat = cv.prov.atoms_with_contents(ct["args"][i - 1])   # (a list of directories filled with `push` in a loop, then iterated)
                        if atom_callres(cat) & cn:
                            continue
                        local = cv.prov.operand_atoms(ct["args"][i - 1], interproc=False)
                        ps_ = sorted(a[1] for a in local if a[0] == "param")
                        if ps_ and cv.kind in ("Fn", "AssocFn") and not [a for a in local if a[0] == "callres" and not re.search(r"clone|to_owned|to_path_buf|into|from|as_ref|deref|borrow", a[1])] \
                                and all(canonical_at_callers(cv, j, depth + 1) for j in ps_):
                            continue
                        return False
                    return True
                ok = bool(pidx) and all(canonical_at_callers(b, i) for i in pidx)
                ctx.check(ok, f"{short(b.name)}/insert-key", [site(b, bb)], "a project directory is inserted without having been canonicalised: the same project reached through two routes would get two identities (and two state directories)")
    ctx.need(n >= 1, "insertion into the loaded-projects map")
    for b in f.user_bodies():
        for (bb, st) in b.aggregates("Config"):
            if "yaml" in st["rv"]["adt"]:
                at = b.prov.operand_atoms(agg_field_op(st, "root_project_dir"), interproc=False)
                ctx.check(bool(atom_callres(at) & cn), f"{short(b.name)}/root-dir", [site(b, bb)], "the root project directory is not canonicalised")


@rule("C18.IDENTITY", ["C18", "C19"], """a target's identity is (project name, target name): Eq and Hash of TargetId are the derived ones over both fields, and its Display prints the project
      (when present) and the target name""", "K4", floor=3)
def identity(ctx):
    f = ctx.f
    tid = [p for p in f.adts if path_ends(p, "TargetId")]
    ctx.need(tid, "struct TargetId")
    a = f.adts[tid[0]]
    fields = [x["name"] for x in a["variants"][0]["fields"]]
    ctx.check(set(fields) >= {"project_name", "target_name"}, "fields", [f"{a['file']}:{a['line']}"], f"TargetId has fields {fields}")
    for tr in ("std::cmp::PartialEq", "std::cmp::Eq", "std::hash::Hash"):
        im = [i for i in f.impls if i["trait"] == tr and i["self"] == tid[0]]
        ctx.check(bool(im) and all(i["derived"] for i in im), f"impl/{tr.split('::')[-1]}", [f"{i['file']}:{i['line']}" for i in im], f"{tr} of TargetId is not the derived implementation over all fields: two spellings of a target, or equal names in different projects, could be confused")
    for x in f.user_bodies():
        if re.match(r"^<[\w:]*TargetId as std::fmt::Display>::fmt$", x.name):
            allf = {fl for blk in x.normal_blocks() for st in blk["stmts"] for p in rv_sources(st["rv"])[0] for fl in place_fields(p)}
            ctx.check({"project_name", "target_name"} <= allf, "Display", [x.loc()], f"Display of TargetId prints {sorted(allf & {'project_name', 'target_name'})} only: state files / offered names of different projects collide")


@rule("C13.FROM-INPUT-LIST-INTACT", ["C13", "C09", "C02", "C01"], """the list of `X.output` producers returned by the target transformation reaches the inheritance/validation loop intact: nothing is removed
      from it, and the loop ranges over all of it""", "K5", floor=1)
def from_input_list_intact(ctx):
    f = ctx.f
    rs = ctx.r.resolvers()
    ctx.need(rs, "resolver")
    b = rs[0]
    tf = [(bb, t) for bb, t in b.calls() if callee_base(t) in f.bodies and re.search(r"Result<\([\w:]*Target, ", f.bodies[callee_base(t)].ret)]
    ctx.need(tf, "call of the target transformation in the resolver")
    tfn = {callee_base(t) for bb, t in tf}
    # loops whose iterator derives from the transformation's result and that extend the input / validate the producer
    ok = False
    for (nbb, sbb, ne, se, blks, it_atoms) in for_loops(b):
        if not (atom_callres(it_atoms) & tfn):
            continue
        if not any(is_extend_input(f, callee_base(t)) for x, t in b.calls() if x in blks):
            continue
        ok = True
        odd = sorted(c for c in atom_callres(it_atoms) if re.search(r"::(filter|filter_map|partition|skip|take|take_while|skip_while|step_by|retain|dedup\w*|drain|truncate|split_off)(::<.*>)?$", c))
        # the list must reach the loop as the transformation returned it: a crate-local function in between may drop entries
        inner = f.cg.reach(list(tfn), cross_spawn=False)
        spliced = {callee_base(t) for _, t in b.calls() if t.get("inlined") or t.get("inlined_async")}   # their code is part of this view: judged by what it does
        odd += sorted(short(c) for c in atom_callres(it_atoms) if c in f.bodies and c not in tfn and c not in inner and c not in spliced and not f.is_derived(f.bodies[c]))
        # ... and it is the transformation's own list that is iterated (moved, borrowed, destructured), not a list rebuilt from it by other code - e.g. "the
        # dependencies that were actually added", which leaves out a producer that is also a declared dependency
        src = None
        tn = b.term(nbb)
        if tn["k"] == "call" and tn["args"] and operand_local(tn["args"][0]) is not None:
            cands = [operand_local(tn["args"][0])]
            for kind, x, pb in b.prov.direct_producers(cands[0]):
                if kind == "expr" and x["rv"]["k"] == "ref":
                    cands.append(x["rv"]["place"]["local"])   # `&mut iter` (possibly a reborrow)
            for c_ in cands:
                for kind, x, pb in b.prov.direct_producers(c_):
                    if kind == "call" and re.search(r"IntoIterator>?::into_iter$|::iter$|::iter_mut$", callee_base(x)) and x["args"] and operand_local(x["args"][0]) is not None:
                        src = operand_local(x["args"][0])
        if src is not None:
            def flat(o):
                out = []
                for y in o:
                    out.append(y)
                    if y[0] == "field":
                        out += flat(y[2])
                return out
            fo = flat(origins(b, src))
            if fo and not any(y[0] == "call" and y[1] in tfn for y in fo):
                # a fresh vector filled by pushes that sit under a condition inside the filling loop (an element-wise mapping - `try_parse_many(&names)?` - is fine)
                fresh = [y[3]["dest"]["local"] for y in fo if y[0] == "call" and re.search(r"Vec::<.*>::(new|with_capacity)$", callee_decl(y[3])) and y[3].get("dest")]
                loops_ = b.natural_loops()
                for V in fresh:
                    for pb, pt in b.calls():
                        if not re.search(r"Vec::<.*>::push$", callee_decl(pt)) or not pt["args"]:
                            continue
                        r0 = operand_local(pt["args"][0])
                        tg = {r0} | {st2["rv"]["place"]["local"] for k2, st2, _ in b.prov.defs.get(r0, ()) if k2 == "assign" and st2["rv"]["k"] == "ref"}
                        if V not in tg:
                            continue
                        inner = [blks_ for (h_, blks_, ex_) in loops_ if pb in blks_]
                        conds = [e for e in b.edges if e.label and e.label[0] == "bool" and pb in b.dominated_by_edge(e) and any(e.src in blks_ for blks_ in inner)]
                        if conds:
                            odd.append("a list rebuilt from the transformation's result with conditional pushes")
        ctx.check(not odd, f"{short(b.name)}/loop-over-whole-list", [site(b, nbb)], f"the inheritance loop ranges over a filtered list ({odd}): some `X.output` producer is neither validated nor inherited", props=["C13", "C09", "C02"])
    ctx.check(ok, f"{short(b.name)}/loop", [b.loc()], "no loop over the `X.output` producers that extends the consumer's input", props=["C13", "C09", "C02"])
    # upstream of the resolver: every place that obtains (resources, producers) from the input transformation hands the producers on - a target kind
    # whose `X.output` references are dropped would neither wait for X nor inherit from it (nor have X validated)
    in_fns = [x for x in f.user_bodies() if x.kind in ("Fn", "AssocFn") and re.search(r"Result<\([\w:]*Resources, std::vec::Vec<[\w:]*TargetId>\)", x.ret)]
    for x in in_fns:
        for (cn, cbb) in f.cg.call_sites.get(x.name, ()):
            cb = f.bodies[cn]
            if cbb is None or f.is_derived(cb) or cb.term(cbb)["k"] != "call":
                continue
            fl = cb.prov.flows_forward(cb.term(cbb)["dest"]["local"])
            vec_locals = [l for l in fl if re.search(r"^std::vec::Vec<[\w:]*TargetId>$", cb.locals[l]["ty"])]
            handed_on = any(0 in cb.prov.flows_forward(l) or l == 0 for l in vec_locals)
            ctx.check(handed_on, f"{short(ctx.r.outer_fn(cb).name)}/producers-handed-on@{cbb}", [site(cb, cbb)],
                      "the `X.output` producers found in this target's input are dropped: X is not scheduled before the target, not validated and its outputs are not inherited",
                      props=["C13", "C09", "C01"])
    muts = []
    for bb, t in b.calls():
        if re.search(r"Vec::<[\w:]*TargetId>::(retain|retain_mut|dedup\w*|drain|truncate|remove|swap_remove|pop|clear|split_off)(::<.*>)?$", callee_decl(t)):
            at = b.prov.operand_atoms(t["args"][0], interproc=False)
            if atom_callres(at) & tfn:
                muts.append(bb)
    ctx.check(not muts, f"{short(b.name)}/not-mutated", [site(b, x) for x in muts] or [b.loc()], "entries are removed from the list of `X.output` producers before it is inherited/validated", props=["C13", "C09", "C02"])
