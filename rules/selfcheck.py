"""Self-validation of the checker (DESIGN.md 3.6): seeded variants, benign twins and positive controls.

A variant is /verif/variants/<name>.json:
  {"desc": "...", "kind": "breaking"|"benign",
   "edits": [{"file": "src/...", "old": "<exact text, must occur once>", "new": "..."}],
   "expect": {"C01": ["C01/READY-PRED/"], ...}     # property -> list of key prefixes of which at least one must be reported
  }
Properties not named in `expect` must stay silent on the variant (attribution table, DESIGN.md 3.7.1), except those listed in "also_ok".
The edits are applied to a scratch copy of the *current* /repo (outside /repo and /verif), analysed, and the copy is removed."""
import os, sys, json, glob, shutil, subprocess, tempfile, time

VERIF = os.path.dirname(os.path.dirname(os.path.abspath(__file__)))
ALL_PROPS = [f"C{n:02d}" for n in range(1, 21)]


def load_variants():
    out = []
    for p in sorted(glob.glob(os.path.join(VERIF, "variants", "*.json"))):
        v = json.load(open(p))
        v["name"] = os.path.basename(p)[:-5]
        out.append(v)
    return out


def scratch_copy(repo):
    d = tempfile.mkdtemp(prefix="zv-scratch-")
    dst = os.path.join(d, "repo")
    shutil.copytree(repo, dst, ignore=shutil.ignore_patterns("target", ".git"), symlinks=True)
    return d, dst


def apply_edits(dst, edits):
    for e in edits:
        p = os.path.join(dst, e["file"])
        if not os.path.exists(p):
            return f"file {e['file']} does not exist"
        s = open(p).read()
        n = s.count(e["old"])
        if n != 1:
            return f"anchor text occurs {n} times in {e['file']}"
        s = s.replace(e["old"], e["new"])
        open(p, "w").write(s)
    return None


def analyse(facts_path, only_prop=None):
    """evaluate every rule (or those serving only_prop) on a fact file: {prop: {key: found}} of violations"""
    import allrules
    from facts import Facts
    from roles import Roles
    from engine import RULES, Ctx, evaluate
    facts = Facts(facts_path)
    ctx = Ctx(facts, Roles(facts))
    evaluate(ctx, only_prop)
    out = {}
    for inst in ctx.instances:
        if inst.held:
            continue
        props = inst.props if inst.props is not None else RULES[inst.rule].props
        for p in props:
            out.setdefault(p, {})[inst.key] = inst.found
    return out


def _digest_tree(paths):
    import hashlib
    h = hashlib.sha256()
    for p in sorted(paths):
        h.update(p.encode())
        try:
            h.update(open(p, "rb").read())
        except OSError:
            pass
    return h.hexdigest()


def context_digest(repo):
    """digest of everything a variant's report depends on besides the variant itself: /repo's sources, the rules and the extractor"""
    src = [os.path.join(r, f) for r, _, fs in os.walk(os.path.join(repo, "src")) for f in fs] + [os.path.join(repo, "Cargo.toml"), os.path.join(repo, "Cargo.lock")]
    rules = glob.glob(os.path.join(VERIF, "rules", "*.py")) + [os.path.join(VERIF, "extractor", "src", "main.rs"), os.path.join(VERIF, "tools", "extract.sh")]
    return _digest_tree(src)[:20] + _digest_tree(rules)[:20]


def cache_path(kind, name, content, repo):
    import hashlib
    key = hashlib.sha256((context_digest(repo) + kind + name).encode() + content).hexdigest()[:32]
    return os.path.join(VERIF, ".cache", "selfval", key + ".json")


def pool_extract(repo, out, crate="zinoma", extra=()):
    """extraction for pool workers: each worker process has its own cargo target directory (the shared one is serialised by a lock)"""
    from multiprocessing import current_process
    ident = current_process()._identity
    w = ident[0] if ident else 0
    tgt = os.path.join(VERIF, ".cache", f"target-w{w}")
    base = os.path.join(VERIF, ".cache", "target")
    if not os.path.exists(tgt) and os.path.exists(base):
        try:
            shutil.copytree(base, tgt, symlinks=True)
        except Exception:
            pass
    p = subprocess.run([os.path.join(VERIF, "tools", "extract.sh"), repo, out, crate] + list(extra), env=dict(os.environ, ZF_TARGET_DIR=tgt), stdout=subprocess.PIPE, stderr=subprocess.PIPE, text=True)
    return p.returncode == 0


def _prefetch_one(job):
    kind, name, content, spec, repo = job
    try:
        apply = (lambda dst: apply_edits(dst, spec[1])) if spec[0] == "edits" else apply_patch(spec[1])
        cached_report(kind, name, content, repo, pool_extract, apply)
    except Exception:
        pass
    return name


def prefetch(jobs, repo):
    """warm the report cache for the given (kind, name, content, spec) jobs in parallel; the callers then read the cache sequentially"""
    if os.environ.get("VERIF_NO_CACHE") == "1":
        return
    todo = [j + (repo,) for j in jobs if not os.path.exists(cache_path(j[0], j[1], j[2], repo))]
    if len(todo) < 3:
        return
    from multiprocessing import Pool
    n = max(1, min(8, (os.cpu_count() or 2) - 1, len(todo)))
    try:
        with Pool(n) as pool:
            list(pool.imap_unordered(_prefetch_one, todo))
    except Exception:
        pass   # the sequential path below computes whatever is still missing


def cached_report(kind, name, content, repo, extract, apply):
    """full report {status, reported:{prop:{key:found}}} of analysing a scratch copy of `repo` modified by `apply(dst) -> error or None` with *every* rule.
    Cached under .cache/selfval keyed by (sources of repo, rules, extractor, the modification): the 20 per-property checks share one analysis per variant."""
    cp = cache_path(kind, name, content, repo)
    cdir = os.path.dirname(cp)
    if os.environ.get("VERIF_NO_CACHE") != "1" and os.path.exists(cp):
        try:
            return json.load(open(cp))
        except Exception:
            pass
    d, dst = scratch_copy(repo)
    try:
        err = apply(dst)
        if err:
            res = {"status": "inapplicable", "detail": err, "reported": {}}
        else:
            fp = os.path.join(d, "facts.json")
            if not extract(dst, fp):
                res = {"status": "does-not-compile", "detail": "the edited copy does not compile", "reported": {}}
            else:
                res = {"status": "analysed", "detail": "", "reported": analyse(fp)}
    finally:
        shutil.rmtree(d, ignore_errors=True)
    try:
        os.makedirs(cdir, exist_ok=True)
        tmp = cp + f".{os.getpid()}.tmp"
        json.dump(res, open(tmp, "w"))
        os.replace(tmp, cp)
    except OSError:
        pass
    return res


def apply_patch(diff):
    def go(dst):
        p = subprocess.run(["patch", "-p1", "-s", "-d", dst, "-i", diff], stdout=subprocess.PIPE, stderr=subprocess.STDOUT, text=True)
        return None if p.returncode == 0 else "the diff does not apply to the current tree: " + p.stdout[-200:]
    return go


def load_seeded():
    out = []
    for d in sorted(glob.glob(os.path.join(VERIF, "seeded", "*"))):
        mp, pp = os.path.join(d, "meta.json"), os.path.join(d, "patch.diff")
        if os.path.exists(mp) and os.path.exists(pp):
            out.append((os.path.basename(d), json.load(open(mp)).get("breaks_property"), pp))
    return out


def load_known_alarms():
    """{seeded id or benign name: reason} of the behaviour-preserving changes on which some rule is known to fire (twins_known.txt)"""
    out = {}
    kp = os.path.join(VERIF, "twins_known.txt")
    if os.path.exists(kp):
        for l in open(kp):
            if l.strip() and not l.startswith("#"):
                out[l.split()[0]] = l.split("--", 1)[1].strip() if "--" in l else ""
    return out


def load_benign():
    return [(os.path.basename(p)[:-5], p) for p in sorted(glob.glob(os.path.join(VERIF, "benign", "*.diff")))]


def run_variant(v, repo, extract, only_prop=None):
    """returns dict(status=ok|inapplicable|does-not-compile|missed|false-alarm, detail, reported)"""
    res = cached_report("variant", v["name"], json.dumps(v["edits"], sort_keys=True).encode(), repo, extract, lambda dst: apply_edits(dst, v["edits"]))
    if res["status"] != "analysed":
        return {"status": res["status"], "detail": res["detail"]}
    rep = res["reported"]
    if only_prop is not None:
        rep = {p: k for p, k in rep.items() if p == only_prop}
    expect = v.get("expect", {})
    also = set(v.get("also_ok", []))
    problems = []
    for p, prefixes in expect.items():
        keys = rep.get(p, {})
        if not any(any(k.startswith(pre) for pre in prefixes) for k in keys):
            problems.append(("missed", f"{p}: none of {prefixes} reported (reported: {sorted(keys)})"))
    for p, keys in rep.items():
        if p not in expect and p not in also and keys:
            problems.append(("false-alarm", f"{p} fired on a variant that does not break it: {sorted(keys)}"))
    st = "ok" if not problems else problems[0][0]
    return {"status": st, "detail": "; ".join(m for _, m in problems), "reported": {p: sorted(k) for p, k in rep.items()}}


def run(prop, repo, extract, verbose=False, controls_only=False):
    """quick (controls_only): the positive controls of the zero-count rules serving `prop` (seeded variants flagged `control_for`);
    thorough: every variant / benign twin that concerns `prop`. Only a *missed* expectation of `prop` on a variant that applied and
    compiled is a failure of the check (CONTROL-DEAD / MISSED); inapplicable or non-compiling variants are recorded, not failed."""
    import allrules
    from engine import RULES
    res = {"controls": [], "variants": [], "failures": []}
    # everything this run will look at, computed in parallel first (the loops below then read the cache)
    jobs = []
    for v in load_variants():
        ctl = [rid for rid in v.get("control_for", []) if rid in RULES and prop in RULES[rid].props]
        rel = prop in v.get("expect", {}) or (v.get("kind") == "benign" and prop in v.get("props", []))
        if (controls_only and ctl) or (not controls_only and (rel or ctl)):
            jobs.append(("variant", v["name"], json.dumps(v["edits"], sort_keys=True).encode(), ("edits", v["edits"])))
    if not controls_only:
        jobs += [("seeded", nm, open(pp, "rb").read(), ("patch", pp)) for (nm, target, pp) in load_seeded() if target == prop]
        jobs += [("benign", nm, open(pp, "rb").read(), ("patch", pp)) for (nm, pp) in load_benign()]
    prefetch(jobs, repo)
    for v in load_variants():
        ctl_rules = [rid for rid in v.get("control_for", []) if rid in RULES and prop in RULES[rid].props]
        relevant = prop in v.get("expect", {}) or (v.get("kind") == "benign" and prop in v.get("props", []))
        if controls_only and not ctl_rules:
            continue
        if not controls_only and not relevant and not ctl_rules:
            continue
        try:
            r = run_variant(v, repo, extract, only_prop=prop)
        except Exception as e:  # the self-validation must never turn an infrastructure problem into a verdict
            res["variants"].append({"variant": v["name"], "status": "error", "detail": f"{type(e).__name__}: {e}"})
            continue
        entry = {"variant": v["name"], "kind": v.get("kind", "breaking"), "status": r["status"], "detail": r.get("detail", ""),
                 "reported": {p: k for p, k in r.get("reported", {}).items() if p == prop}}
        if ctl_rules:
            entry["control_for"] = ctl_rules
            res["controls"].append(entry)
        else:
            res["variants"].append(entry)
        if r["status"] in ("inapplicable", "does-not-compile"):
            continue
        keys = r.get("reported", {}).get(prop, [])
        for rid in ctl_rules:
            pre = rid.replace(".", "/", 1) + "/"
            if not any(k.startswith(pre) for k in keys):
                res["failures"].append((f"CONTROL-DEAD-{rid}", f"positive control {v['name']} contains a construct that rule {rid} must report, but the rule stayed silent: the matcher is dead"))
        if not controls_only:
            if prop in v.get("expect", {}):
                prefixes = v["expect"][prop]
                if not any(any(k.startswith(pre) for pre in prefixes) for k in keys):
                    res["failures"].append((f"MISSED-{v['name']}", f"seeded variant {v['name']} breaks {prop} ({v.get('desc','')}) but none of {prefixes} was reported"))
            elif v.get("kind") == "benign" and keys:
                res["failures"].append((f"FALSE-ALARM-{v['name']}", f"behaviour-preserving variant {v['name']} made {prop} fire: {keys}"))
        if verbose:
            print(v["name"], r["status"], r.get("detail", ""))
    if not controls_only:
        # independent mutants (sub-agents) aimed at this property must be reported by it; independent behaviour-preserving refactorings must not be
        for (nm, target, pp) in load_seeded():
            if target != prop:
                continue
            try:
                r = cached_report("seeded", nm, open(pp, "rb").read(), repo, extract, apply_patch(pp))
            except Exception as e:
                res["variants"].append({"variant": "seeded/" + nm, "status": "error", "detail": f"{type(e).__name__}: {e}"})
                continue
            keys = sorted(r["reported"].get(prop, {}))
            st = r["status"] if r["status"] != "analysed" else ("ok" if keys else "missed")
            res["variants"].append({"variant": "seeded/" + nm, "kind": "independent-mutant", "status": st, "detail": r.get("detail", ""), "reported": {prop: keys[:8]}})
            if st == "missed":
                res["failures"].append((f"MISSED-seeded-{nm}", f"independent mutant seeded/{nm} breaks {prop} (demonstrated by its demo.sh) but no rule serving {prop} reported it"))
        known_alarms = load_known_alarms()
        for (nm, pp) in load_benign():
            if nm in known_alarms:
                # a behaviour-preserving change the rules cannot prove equivalent (twins_known.txt says why): recorded, not a failure of the check
                res["variants"].append({"variant": "benign/" + nm, "kind": "independent-refactoring", "status": "known-alarm", "detail": known_alarms[nm], "reported": {}})
                continue
            try:
                r = cached_report("benign", nm, open(pp, "rb").read(), repo, extract, apply_patch(pp))
            except Exception as e:
                res["variants"].append({"variant": "benign/" + nm, "status": "error", "detail": f"{type(e).__name__}: {e}"})
                continue
            keys = sorted(r["reported"].get(prop, {}))
            st = r["status"] if r["status"] != "analysed" else ("ok" if not keys else "false-alarm")
            res["variants"].append({"variant": "benign/" + nm, "kind": "independent-refactoring", "status": st, "detail": r.get("detail", ""), "reported": {prop: keys[:8]}})
            if st == "false-alarm":
                res["failures"].append((f"FALSE-ALARM-benign-{nm}", f"behaviour-preserving refactoring benign/{nm} made {prop} fire: {keys[:4]}"))
    return res


if __name__ == "__main__":
    # usage: selfcheck.py [variant-name-substring ...]   -- runs variants against /repo and prints a table
    sys.path.insert(0, os.path.join(VERIF, "rules"))

    def extract(repo, out, crate="zinoma", extra=()):
        p = subprocess.run([os.path.join(VERIF, "tools", "extract.sh"), repo, out, crate] + list(extra), stdout=subprocess.PIPE, stderr=subprocess.PIPE, text=True)
        if p.returncode != 0 and "-v" in sys.argv:
            print(p.stderr[-3000:])
        return p.returncode == 0

    pats = [a for a in sys.argv[1:] if not a.startswith("-")]
    bad = 0
    for v in load_variants():
        if pats and not any(p in v["name"] for p in pats):
            continue
        t = time.time()
        r = run_variant(v, "/repo", extract)
        flag = "ok  " if r["status"] == "ok" else "FAIL"
        if r["status"] != "ok":
            bad += 1
        print(f"{flag} {v['name']:45s} {r['status']:16s} {round(time.time() - t, 1)}s  {r.get('detail', '')}")
        if "-r" in sys.argv:
            for p, ks in sorted(r.get("reported", {}).items()):
                print("      ", p, ks)
    sys.exit(1 if bad else 0)
