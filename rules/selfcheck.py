"""Self-validation of the checker (DESIGN.md 3.6): seeded variants, benign twins and positive controls.

A variant is /verif/variants/<name>.json:
  {"desc": "...", "kind": "breaking"|"benign",
   "edits": [{"file": "src/...", "old": "<exact text, must occur once>", "new": "..."}],
   "expect": {"C01": ["C01/READY-PRED/"], ...}     # property -> list of key prefixes of which at least one must be reported
  }
Properties not named in `expect` must stay silent on the variant (attribution table, DESIGN.md 3.7.1), except those listed in "also_ok".
The edits are applied to a scratch copy of the *current* /repo (outside /repo and /verif), analysed, and the copy is removed."""
import os, sys, json, glob, shutil, subprocess, tempfile, time

VERIF = os.path.dirname(os.path.dirname(os.path.abspath(__file__)))
ALL_PROPS = [f"C{n:02d}" for n in range(1, 21)]


def load_variants():
    out = []
    for p in sorted(glob.glob(os.path.join(VERIF, "variants", "*.json"))):
        v = json.load(open(p))
        v["name"] = os.path.basename(p)[:-5]
        out.append(v)
    return out


def scratch_copy(repo):
    d = tempfile.mkdtemp(prefix="zv-scratch-")
    dst = os.path.join(d, "repo")
    shutil.copytree(repo, dst, ignore=shutil.ignore_patterns("target", ".git"), symlinks=True)
    return d, dst


def apply_edits(dst, edits):
    for e in edits:
        p = os.path.join(dst, e["file"])
        if not os.path.exists(p):
            return f"file {e['file']} does not exist"
        s = open(p).read()
        n = s.count(e["old"])
        if n != 1:
            return f"anchor text occurs {n} times in {e['file']}"
        s = s.replace(e["old"], e["new"])
        open(p, "w").write(s)
    return None


def analyse(facts_path, only_prop=None):
    """evaluate every rule (or those serving only_prop) on a fact file: {prop: {key: found}} of violations"""
    import allrules
    from facts import Facts
    from roles import Roles
    from engine import RULES, Ctx, evaluate
    facts = Facts(facts_path)
    ctx = Ctx(facts, Roles(facts))
    evaluate(ctx, only_prop)
    out = {}
    for inst in ctx.instances:
        if inst.held:
            continue
        props = inst.props if inst.props is not None else RULES[inst.rule].props
        for p in props:
            out.setdefault(p, {})[inst.key] = inst.found
    return out


def run_variant(v, repo, extract, only_prop=None):
    """returns dict(status=ok|inapplicable|does-not-compile|missed|false-alarm, detail, reported)"""
    d, dst = scratch_copy(repo)
    try:
        err = apply_edits(dst, v["edits"])
        if err:
            return {"status": "inapplicable", "detail": err}
        fp = os.path.join(d, "facts.json")
        if not extract(dst, fp):
            return {"status": "does-not-compile", "detail": "the edited copy does not compile"}
        rep = analyse(fp, only_prop)
    finally:
        shutil.rmtree(d, ignore_errors=True)
    expect = v.get("expect", {})
    also = set(v.get("also_ok", []))
    problems = []
    for p, prefixes in expect.items():
        keys = rep.get(p, {})
        if not any(any(k.startswith(pre) for pre in prefixes) for k in keys):
            problems.append(("missed", f"{p}: none of {prefixes} reported (reported: {sorted(keys)})"))
    for p, keys in rep.items():
        if p not in expect and p not in also and keys:
            problems.append(("false-alarm", f"{p} fired on a variant that does not break it: {sorted(keys)}"))
    st = "ok" if not problems else problems[0][0]
    return {"status": st, "detail": "; ".join(m for _, m in problems), "reported": {p: sorted(k) for p, k in rep.items()}}


def run(prop, repo, extract, verbose=False, controls_only=False):
    """quick (controls_only): the positive controls of the zero-count rules serving `prop` (seeded variants flagged `control_for`);
    thorough: every variant / benign twin that concerns `prop`. Only a *missed* expectation of `prop` on a variant that applied and
    compiled is a failure of the check (CONTROL-DEAD / MISSED); inapplicable or non-compiling variants are recorded, not failed."""
    import allrules
    from engine import RULES
    res = {"controls": [], "variants": [], "failures": []}
    for v in load_variants():
        ctl_rules = [rid for rid in v.get("control_for", []) if rid in RULES and prop in RULES[rid].props]
        relevant = prop in v.get("expect", {}) or (v.get("kind") == "benign" and prop in v.get("props", []))
        if controls_only and not ctl_rules:
            continue
        if not controls_only and not relevant and not ctl_rules:
            continue
        try:
            r = run_variant(v, repo, extract, only_prop=prop)
        except Exception as e:  # the self-validation must never turn an infrastructure problem into a verdict
            res["variants"].append({"variant": v["name"], "status": "error", "detail": f"{type(e).__name__}: {e}"})
            continue
        entry = {"variant": v["name"], "kind": v.get("kind", "breaking"), "status": r["status"], "detail": r.get("detail", ""),
                 "reported": {p: k for p, k in r.get("reported", {}).items() if p == prop}}
        if ctl_rules:
            entry["control_for"] = ctl_rules
            res["controls"].append(entry)
        else:
            res["variants"].append(entry)
        if r["status"] in ("inapplicable", "does-not-compile"):
            continue
        keys = r.get("reported", {}).get(prop, [])
        for rid in ctl_rules:
            pre = rid.replace(".", "/", 1) + "/"
            if not any(k.startswith(pre) for k in keys):
                res["failures"].append((f"CONTROL-DEAD-{rid}", f"positive control {v['name']} contains a construct that rule {rid} must report, but the rule stayed silent: the matcher is dead"))
        if not controls_only:
            if prop in v.get("expect", {}):
                prefixes = v["expect"][prop]
                if not any(any(k.startswith(pre) for pre in prefixes) for k in keys):
                    res["failures"].append((f"MISSED-{v['name']}", f"seeded variant {v['name']} breaks {prop} ({v.get('desc','')}) but none of {prefixes} was reported"))
            elif v.get("kind") == "benign" and keys:
                res["failures"].append((f"FALSE-ALARM-{v['name']}", f"behaviour-preserving variant {v['name']} made {prop} fire: {keys}"))
        if verbose:
            print(v["name"], r["status"], r.get("detail", ""))
    return res


if __name__ == "__main__":
    # usage: selfcheck.py [variant-name-substring ...]   -- runs variants against /repo and prints a table
    sys.path.insert(0, os.path.join(VERIF, "rules"))

    def extract(repo, out, crate="zinoma", extra=()):
        p = subprocess.run([os.path.join(VERIF, "tools", "extract.sh"), repo, out, crate] + list(extra), stdout=subprocess.PIPE, stderr=subprocess.PIPE, text=True)
        if p.returncode != 0 and "-v" in sys.argv:
            print(p.stderr[-3000:])
        return p.returncode == 0

    pats = [a for a in sys.argv[1:] if not a.startswith("-")]
    bad = 0
    for v in load_variants():
        if pats and not any(p in v["name"] for p in pats):
            continue
        t = time.time()
        r = run_variant(v, "/repo", extract)
        flag = "ok  " if r["status"] == "ok" else "FAIL"
        if r["status"] != "ok":
            bad += 1
        print(f"{flag} {v['name']:45s} {r['status']:16s} {round(time.time() - t, 1)}s  {r.get('detail', '')}")
        if "-r" in sys.argv:
            for p, ks in sorted(r.get("reported", {}).items()):
                print("      ", p, ks)
    sys.exit(1 if bad else 0)
