"""Shared queries used by several rule files."""
import re
from facts import *
from idioms import *
from roles import *
from engine import AnchorLost


# iterator adaptors / slice accessors that make an iteration range over less than the whole collection
RESTRICTING = r"::(take|skip|filter|step_by|take_while|skip_while|nth|last|find|find_map|position|min\w*|max\w*|first|get|split_first|split_last|chunks\w*|windows)(::<.*>)?$"

def closure_bodies_passed(body, t):
    """closure bodies constructed as direct arguments of a call"""
    out = []
    for a in t["args"]:
        l = operand_local(a)
        if l is None:
            continue
        for kind, x, bb in body.prov.direct_producers(l):
            if kind == "agg" and x["rv"].get("closure") in body.facts.bodies:
                out.append(body.facts.view(x["rv"]["closure"]))
    return out


def const_val(op):
    return op["val"] if op["k"] == "const" else None


def is_const(op, v):
    return op["k"] == "const" and op["val"] == v


def input_arm(actor):
    arms = arm_by_payload(actor, lambda p: tyname(p.rstrip(">")) == "ActorInputMessage" or "ActorInputMessage>" in p)
    if len(arms) != 1:
        raise AnchorLost(f"select arm receiving ActorInputMessage in {short(actor.name)} (found {len(arms)})")
    return arms[0]


def arm_of(body, type_tail):
    arms = arm_by_payload(body, lambda p: type_tail in p)
    return arms


def msg_region(actor, variant):
    """blocks handling ActorInputMessage::<variant> inside the input arm"""
    arm = input_arm(actor)
    return variant_region(actor, "ActorInputMessage", variant, within=arm.region | {arm.edge.dst})


def kind_subregions(actor, R, msg_variant):
    """split region R (handler of msg_variant) by a pattern on the message's `kind` (nested pattern, or an inner `match kind` on the bound field):
    {'Build': blocks, 'Service': blocks} or {'*': R} when the handler is generic in the kind"""
    out = {}
    for k in ("Build", "Service"):
        def p(l, e, k=k):
            if not (l[0] == "variant" and l[1] and path_ends(l[1], "ExecutionKind") and l[2] == (k,)):
                return False
            on = l[3]
            if on and any(pr["k"] == "downcast" and pr["variant"] == msg_variant for pr in on["proj"]) and "kind" in place_fields(on):
                return True
            # `match kind {..}` on the variable bound to the message's field
            return origin_matches(edge_origin(actor, e), lambda o: o[0] == "field" and o[1] and o[1][-1] == "kind" and msg_variant in o[1], through_fields=False)
        # the split is a split of the *handler*: the test of the kind is the first thing the handler does (a `match kind` further down - say, inside a
        # helper that picks a per-kind set - belongs to a handler that is generic in the kind)
        def at_entry(l, e, p=p):
            if not p(l, e):
                return False
            before = {x for x in R if x != e.src and actor.dominates(x, e.src)}
            return not any(actor.term(x)["k"] == "call" and not _trivial_call(actor.term(x)) for x in before)
        rk = actor.region(at_entry, within=R)
        if rk:
            out[k] = rk & R
    if not out:
        # a handler generic in the kind that tells its own kind from the other one by comparison (`if requested_kind != own_kind { .. }`, the own kind
        # being a constant - possibly the argument of a shared handler spliced into this actor): there are exactly two kinds
        other = {"Build": "Service", "Service": "Build"}
        for e in actor.edges:
            l = e.label
            if not (l and l[0] == "bool" and l[2] is not None and e.src in R):
                continue
            for d in bool_atom_desc(actor, l[2]):
                if d[0] != "call" or not re.search(r"PartialEq(<.*>)?>?::(eq|ne)$", d[1]) or len(d[2]) != 2:
                    continue
                is_msg = [any(a[0] == "field" and a[2] == "kind" and path_ends(a[1], "ActorInputMessage") for a in x) and ("variant", msg_variant) in x for x in d[2]]
                consts = [atom_aggs(x, "ExecutionKind") if not m else set() for x, m in zip(d[2], is_msg)]
                if sum(is_msg) != 1:
                    continue
                ks = next(c for c, m in zip(consts, is_msg) if not m)
                if len(ks) != 1:
                    continue
                k = next(iter(ks))
                equal = (d[1].endswith("::eq") and l[1] is True) or (d[1].endswith("::ne") and l[1] is False)
                kk = k if equal else other[k]
                out[kk] = out.get(kk, set()) | (actor.dominated_by_edge(e) & R)
    if not out:
        out["*"] = R
    return out


def _trivial_call(t):
    return bool(re.search(r"::(deref|deref_mut|as_ref|as_mut|borrow|borrow_mut|clone|into|from|unwrap|into_future|new_unchecked|get_context|poll|next|fuse)$", callee_base(t)))


def msg_field_atoms(variant, field):
    """predicate on atom sets: derives from field `field` of the incoming message (variant)"""
    def p(atoms):
        return ("variant", variant) in atoms and any(a[0] == "field" and a[2] == field and path_ends(a[1], "ActorInputMessage") for a in atoms)
    return p


class Msg:
    """an ActorInputMessage value as seen at a use site: its variant, the kinds its `kind` field may hold (in the use site's context), the constant
    of its `actual` field (or None), and the block whose guards decide whether it is built (the aggregate itself, or - when a constructor helper
    builds it - the call of that helper)"""
    def __init__(self, variant, kinds, actual, body, bb, st, via=None):
        self.variant, self.kinds, self.actual, self.body, self.bb, self.st, self.via = variant, kinds, actual, body, bb, st, via


def direct_msg_aggregate(body, op, adt="ActorInputMessage"):
    """the aggregate statement that directly produces operand `op` (through moves), if it is a construction of `adt`"""
    l = operand_local(op)
    if l is None:
        return None
    for kind, x, bb in body.prov.direct_producers(l):
        if kind == "agg" and "adt" in x["rv"] and path_ends(x["rv"]["adt"], adt):
            return (bb, x)
    return None


def resolve_msg(body, op, adt="ActorInputMessage"):
    """Msg for the message operand `op` of a send in `body`: a direct aggregate, or the result of a local constructor helper (a function whose
    return value is such an aggregate, e.g. `fn ok_message(&self, kind) -> ActorInputMessage`), its parameters mapped to the call's arguments"""
    d = direct_msg_aggregate(body, op, adt)
    if d:
        bb, st = d
        aop = agg_field_op(st, "actual")
        return Msg(st["rv"]["variant"], kind_of_operand(body, agg_field_op(st, "kind")), const_val(aop) if aop else None, body, bb, st)
    l = operand_local(op)
    if l is None:
        return None
    f = body.facts
    for kind, x, bb in body.prov.direct_producers(l):
        if kind != "call" or not x["callee"]:
            continue
        h = f.bodies.get(callee_base(x))
        if h is None or h.coroutine:
            continue
        for (hb, hst) in h.aggregates(adt):
            if hst["lhs"]["local"] != 0 and 0 not in h.prov.flows_forward(hst["lhs"]["local"]):
                continue
            kop = agg_field_op(hst, "kind")
            kinds = set()
            if kop is not None:
                hk = kind_of_operand(h, kop)
                kinds |= hk & {"Build", "Service"}
                for a in h.prov.operand_atoms(kop, interproc=False):
                    if a[0] == "param" and a[1] - 1 < len(x["args"]):
                        kinds |= kind_of_operand(body, x["args"][a[1] - 1])
            aop = agg_field_op(hst, "actual")
            return Msg(hst["rv"]["variant"], kinds, const_val(aop) if aop else None, body, bb, hst, via=h)
    return None


def agg_field_op(st, field):
    rv = st["rv"]
    if field in rv.get("fields", []):
        return rv["ops"][rv["fields"].index(field)]
    return None


def kind_of_operand(body, op):
    """set of constant ExecutionKind variants the operand may be, plus 'msg' if it derives from a message's kind field, 'param' if from a parameter"""
    out = set()
    if op is None:
        return out
    at = body.prov.operand_atoms(op, interproc=False)
    out |= atom_aggs(at, "ExecutionKind")
    if any(a[0] == "field" and a[2] == "kind" for a in at):
        out.add("msg")
    if any(a[0] == "param" for a in at) or any(a[0] == "field" and a[1].startswith("{env of") for a in at):
        out.add("param")
    return out


def sends_via(r, body, blocks=None):
    """calls (in `blocks`) of the send_to_actor role function: [(bb, term, dest atoms, msg aggregate or None)]"""
    fns = {r.fn_of(b).name for b in r.senders_to_actor()}
    out = []
    for bb, t in calls_in(body, blocks, lambda n: n in fns):
        dest_at = body.prov.operand_atoms(t["args"][1]) if len(t["args"]) > 1 else set()
        msg = resolve_msg(body, t["args"][2]) if len(t["args"]) > 2 else None
        out.append((bb, t, dest_at, msg))
    return out


def extend_input_fns(f):
    """the functions that add resources to a target's input: local fns taking (&mut Target, &Resources) - by what they take, not by their name - and the
    wrappers around them that take the producing target instead (`extend_input_with_output_of(&mut self, producer: &Target)`)"""
    if hasattr(f, "_extend_input_fns"):
        return f._extend_input_fns
    base = set()
    for b in f.user_bodies():
        if b.kind in ("Fn", "AssocFn") and b.argc == 2 and re.search(r"^&mut [\w:]*Target$", b.locals[1]["ty"]) and re.search(r"^&[\w:]*Resources$", b.locals[2]["ty"]):
            base.add(b.name)
    wrappers = set()
    for b in f.user_bodies():
        if b.kind in ("Fn", "AssocFn") and b.argc == 2 and b.name not in base and re.search(r"^&mut [\w:]*Target$", b.locals[1]["ty"]) and re.search(r"^&[\w:]*Target$", b.locals[2]["ty"]) \
                and base & f.cg.reach([b.name], cross_spawn=False):
            wrappers.add(b.name)
    f._extend_input_fns = (base, wrappers)
    return f._extend_input_fns


def is_extend_input(f, name):
    base, wrappers = extend_input_fns(f)
    return name in base or name in wrappers


def fanout_fns(r, field):
    """helper methods that loop over `field` (requesters / dependencies) and call the send_to_actor role inside the loop"""
    fns = {r.fn_of(b).name for b in r.senders_to_actor()}
    out = []
    for raw in r.helper_methods():
        if not raw.coroutine:
            continue
        # (the view of the method: the loop itself may sit in a generic `send_to_each(recipients, msg)` shared by both fan-outs and spliced in here)
        b = r.V(raw)
        for (nbb, sbb, ne, se, blks, it_atoms) in for_loops(b):
            if atom_has_field(it_atoms, field, "TargetActorHelper") and calls_in(b, blks, lambda n: n in fns):
                out.append(b)
                break
    return out


def calls_to_role(r, body, role_bodies, blocks=None):
    names = {r.fn_of(b).name for b in role_bodies}
    return calls_in(body, blocks, lambda n: n in names)


def is_awaited(body, bb):
    return await_of_call(body, bb) is not None


def site(body, bb):
    return f"{body.loc(bb)} ({short(body.name)} bb{bb})"


def enumerate_paths(body, limit=20000, start=0, stop_at=None, within=None):
    """P6: acyclic paths start -> return; yields (list of edges). Back edges are cut (each block at most once per path). With `within`, only paths that
    stay inside that set of blocks (plus the stop blocks) are followed - for questions local to a region of a large view."""
    out = []
    count = [0]

    def walk(bb, path, visited):
        t = body.term(bb)
        if t["k"] == "return" or (stop_at is not None and bb in stop_at):
            out.append(list(path))
            count[0] += 1
            if count[0] > limit:
                raise AnchorLost(f"analysis bound exceeded: more than {limit} paths in {short(body.name)}")
            return
        for e in body.succ.get(bb, ()):
            if e.dst in visited:
                continue
            if within is not None and e.dst not in within and not (stop_at is not None and e.dst in stop_at):
                continue
            path.append(e)
            visited.add(e.dst)
            walk(e.dst, path, visited)
            visited.discard(e.dst)
            path.pop()

    walk(start, [], {start})
    return out


def path_return_value(body, path, start=0):
    """what _0 holds at the end of the path: ('const', v) | ('call', desc) | ('local', l) | None"""
    ret = None
    blocks = [start] + [e.dst for e in path]
    for bb in blocks:
        for st in body.stmts(bb):
            if st["lhs"]["local"] == 0 and not st["lhs"]["proj"]:
                rv = st["rv"]
                if rv["k"] == "use" and rv["op"]["k"] == "const":
                    ret = ("const", rv["op"]["val"])
                elif rv["k"] == "use":
                    ret = ("local", rv["op"]["place"]["local"], bb)
                elif rv["k"] == "agg":
                    ret = ("agg", st, bb)
                else:
                    ret = ("expr", rv, bb)
        t = body.term(bb)
        if t["k"] == "call" and t["dest"]["local"] == 0 and not t["dest"]["proj"]:
            ret = ("call", call_desc(body, t, bb), bb)
    return ret


def path_bool_facts(body, path):
    """[(desc items, polarity, edge)] for every bool edge on the path"""
    out = []
    for e in path:
        l = e.label
        if l and l[0] == "bool" and l[2] is not None:
            out.append((bool_atom_desc(body, l[2]), l[1], e))
    return out


def desc_is_field_read(name):
    return lambda d: d[0] == "field" and d[1] == name


def desc_is_call(name_pred, arg_pred=None):
    def p(d):
        if d[0] != "call" or not name_pred(d[1]):
            return False
        if arg_pred is not None and not arg_pred(d[2]):
            return False
        return True
    return p


def fact_holds(facts, pred_desc, polarity):
    """does the list of path facts contain atom pred_desc with the given polarity (looking through Not)?"""
    for descs, pol, e in facts:
        for d in descs:
            if d[0] == "not":
                for inner in d[1]:
                    if pred_desc(inner) and (not pol) == polarity:
                        return True
            elif pred_desc(d) and pol == polarity:
                return True
    return False


# ------------------------------------------------------------------ path facts over origins (K2/K3 vocabulary)
def path_facts(body, path):
    """[(kind, value, origins, edge)] for bool and variant edges on the path"""
    out = []
    for e in path:
        l = e.label
        if not l:
            continue
        if l[0] == "bool" and l[2] is not None:
            out.append(("bool", l[1], edge_origin(body, e), e))
        elif l[0] == "variant":
            out.append(("variant", l[2], edge_origin(body, e), e))
    return out


def _last_def_on_path(body, blocks, local, upto):
    """(kind, payload, index in blocks) of the last definition of `local` in blocks[:upto+1] (statements of later index win), or None"""
    for i in range(upto, -1, -1):
        bb = blocks[i]
        t = body.term(bb)
        if t["k"] == "call" and t["dest"]["local"] == local and not t["dest"]["proj"] and i < upto + 1 and (i < len(blocks) - 1 or True):
            # the call's destination is written when the call returns, i.e. after the block's statements
            if i <= upto:
                return ("call", t, i)
        for st in reversed(body.stmts(bb)):
            if st["lhs"]["local"] == local and not st["lhs"]["proj"]:
                return ("assign", st, i)
    return None


def path_origins(body, blocks, local, upto, depth=0):
    """origins of `local` as defined along the path (block list) up to index `upto`: follows plain copies path-sensitively, then falls back to
    the flow-insensitive origins of the first non-copy definition"""
    if depth > 10:
        return origins(body, local)
    d = _last_def_on_path(body, blocks, local, upto)
    if d is None:
        return origins(body, local)
    kind, x, i = d
    if kind == "call":
        if x["callee"] and callee_base(x).endswith("ops::Not>::not") and x["args"] and operand_local(x["args"][0]) is not None:
            return [("not", tuple(path_origins(body, blocks, operand_local(x["args"][0]), i, depth + 1)))]
        return [("call", callee_base(x), blocks[i], x)] if x["callee"] else []
    rv = x["rv"]
    if x.get("ret_of"):
        # the return of a spliced-in callee: the value is the callee's result (the call itself stays visible) as well as what the callee computed
        cn, cbb = x["ret_of"]
        ct = body.term(cbb)
        inner = path_origins(body, blocks, rv["op"]["place"]["local"], i, depth + 1) if rv["k"] == "use" and rv["op"]["k"] in ("copy", "move") else []
        return ([("call", callee_base(ct), cbb, ct)] if ct["k"] == "call" and ct["callee"] else []) + inner
    if rv["k"] == "use" and rv["op"]["k"] == "const":
        return [("const", rv["op"]["val"])]
    if rv["k"] == "use" and rv["op"]["k"] in ("copy", "move") and not [p for p in rv["op"]["place"]["proj"] if p["k"] != "deref"]:
        return path_origins(body, blocks, rv["op"]["place"]["local"], i, depth + 1)
    if rv["k"] == "unop" and rv["op"] == "Not" and rv["a"]["k"] in ("copy", "move") and not [p for p in rv["a"]["place"]["proj"] if p["k"] != "deref"]:
        return [("not", tuple(path_origins(body, blocks, rv["a"]["place"]["local"], i, depth + 1)))]
    # `(poll as Ready).0` where, on this path, the poll local was last assigned `Poll::Ready(v)` by a spliced-in async body: follow v
    if rv["k"] == "use" and rv["op"]["k"] in ("copy", "move"):
        pj = [p for p in rv["op"]["place"]["proj"] if p["k"] != "deref"]
        if len(pj) == 2 and pj[0]["k"] == "downcast" and pj[0]["variant"] == "Ready" and pj[1]["k"] == "field":
            d2 = _last_def_on_path(body, blocks, rv["op"]["place"]["local"], i)
            if d2 and d2[0] == "assign" and d2[1]["rv"]["k"] == "agg" and d2[1]["rv"].get("adt") == "std::task::Poll" and d2[1]["rv"]["ops"]:
                o = d2[1]["rv"]["ops"][0]
                if o["k"] == "const":
                    return [("const", o["val"])]
                if not [p for p in o["place"]["proj"] if p["k"] != "deref"]:
                    return path_origins(body, blocks, o["place"]["local"], d2[2], depth + 1)
    return rv_origins(body, rv, blocks[i], x) or [("expr", blocks[i])]


def path_source_local(body, blocks, local, upto, depth=0):
    """the local that, along this path, ultimately supplies the value of `local` at index `upto`: follows plain copies/moves and reads of a field of a
    tuple (or struct) that was built on this very path (`let (a, b) = match x { .. => (p, q), .. }`)"""
    if depth > 12:
        return local
    d = _last_def_on_path(body, blocks, local, upto)
    if d is None or d[0] != "assign":
        return local
    kind, x, i = d
    rv = x["rv"]
    if rv["k"] == "use" and rv["op"]["k"] in ("copy", "move"):
        p = rv["op"]["place"]
        pj = [pr for pr in p["proj"] if pr["k"] != "deref"]
        if not pj:
            return path_source_local(body, blocks, p["local"], i, depth + 1)
        if len(pj) == 1 and pj[0]["k"] == "field":
            d2 = _last_def_on_path(body, blocks, p["local"], i)
            if d2 and d2[0] == "assign" and d2[1]["rv"]["k"] == "agg" and (d2[1]["rv"].get("tuple") or "adt" in d2[1]["rv"]):
                ops = d2[1]["rv"]["ops"]
                idx = pj[0].get("idx")
                if idx is not None and idx < len(ops) and ops[idx]["k"] in ("copy", "move") and not [q for q in ops[idx]["place"]["proj"] if q["k"] != "deref"]:
                    return path_source_local(body, blocks, ops[idx]["place"]["local"], d2[2], depth + 1)
    return local


def ret_origins(body, path, start=0):
    """what the return place holds at the end of the path (path-sensitive through plain copies)"""
    blocks = [start] + [e.dst for e in path]
    return path_origins(body, blocks, 0, len(blocks) - 1)


def is_const_ret(ret, v):
    ret = _const_on_path(ret)
    return len(ret) == 1 and ret[0][0] == "const" and ret[0][1] == v


def has_fact(facts, kind, value, pred, through_not=True):
    """a fact of `kind` ('bool'/'variant') with `value` whose tested value's origin satisfies pred; bool facts look through Not"""
    for (k, v, orig, e) in facts:
        if k != kind:
            continue
        if kind == "variant":
            if (value in v if isinstance(value, str) else v == value) and len(v) == 1 and origin_matches(orig, pred):
                return True
        else:
            if v == value and origin_matches(orig, pred):
                return True
            if through_not:
                for o in orig:
                    if o[0] == "not" and v == (not value) and origin_matches(o[1], pred):
                        return True
    return False


def true_paths(body, start=0):
    """(path, facts, ret origins) for every path of a bool-returning body that can return true"""
    out = []
    allp = enumerate_paths(body, start=start)
    for p in allp:
        ro = ret_origins(body, p, start)
        if is_const_ret(ro, "false"):
            continue
        if not feasible_path(body, p, start=start):
            continue   # contradictory on its face (a helper returned `None` and the caller matched `Some`)
        out.append((p, path_facts(body, p), ro))
    return out, len(allp)


def fmt_path(body, path, n=14):
    bl = [e for e in path if e.label and e.label[0] in ("bool", "variant")]
    return " ".join(f"bb{e.src}:{e.label[1] if e.label[0]=='bool' else '/'.join(e.label[2])}" for e in bl[:n])


def assigned_agg_variants(body, st):
    """variants of the aggregate(s) a statement assigns, looking through moves of temporaries"""
    rv = st["rv"]
    if rv["k"] == "agg" and "variant" in rv:
        return {rv["variant"]}
    if rv["k"] == "use" and rv["op"]["k"] == "const":
        v = rv["op"]["val"]
        return {v.split("::")[-1]} if "::" in v else {v}
    out = set()
    if rv["k"] == "use" and rv["op"]["k"] in ("copy", "move") and not rv["op"]["place"]["proj"]:
        for kind, x, bb in body.prov.direct_producers(rv["op"]["place"]["local"]):
            if kind == "agg" and "variant" in x["rv"]:
                out.add(x["rv"]["variant"])
            elif kind == "call":
                out.add("call:" + callee_base(x))
            elif kind == "const":
                out.add(x["rv"]["op"]["val"].split("::")[-1])
            else:
                out.add("?")
    return out


def dominating_conditions(body, bb, region=None):
    """[(edge, descs, polarity)] for every bool edge (source inside `region` if given) that dominates block bb: the conditions under which bb runs.
    Variant edges are not included (regions already express them)."""
    out = []
    for e in body.edges:
        l = e.label
        if not l or l[0] != "bool" or l[2] is None:
            continue
        if region is not None and e.src not in region:
            continue
        if bb in body.dominated_by_edge(e):
            out.append((e, bool_atom_desc(body, l[2]), l[1]))
    return out


def conditions_within(conds, allowed):
    """every dominating condition matches one of the allowed (predicate on desc item, polarity) pairs; returns the offending ones.
    Logging-level tests (`log::max_level`, `__private_api::enabled`, STATIC_MAX_LEVEL comparisons) never dominate protocol code and are ignored."""
    bad = []
    for (e, descs, pol) in conds:
        ok = False
        for d in descs:
            items = [(d, pol)]
            if d[0] == "not":
                items = [(x, not pol) for x in d[1]]
            for (x, p) in items:
                if x[0] == "binop" and any(isinstance(s, tuple) and any(isinstance(y, tuple) and y and y[0] == "call" and ("log::" in y[1] or "max_level" in y[1]) for y in s) for s in x[2:4]):
                    ok = True
                if x[0] == "call" and ("log::" in x[1] or "__private_api" in x[1]):
                    ok = True
                if x[0] == "call" and len(x) > 2 and any(any(isinstance(a, tuple) and len(a) > 1 and isinstance(a[1], str) and (a[1].startswith("log::") or a[1] == "log::Level" or a[1] == "log::LevelFilter") for a in arg) for arg in x[2]):
                    ok = True  # `lvl <= STATIC_MAX_LEVEL && lvl <= log::max_level()` of the logging macros
                for (pred, want) in allowed:
                    if pred(x) and (want is None or want == p):
                        ok = True
        if not descs:
            ok = False
        if not ok:
            bad.append((e, descs, pol))
    return bad


def cond_is_insert_result(field):
    """the bool returned by HashSet::insert on a set reached from helper.<field>"""
    return lambda d: d[0] == "call" and d[1].endswith("::insert") and d[2] and atom_has_field(d[2][0], field, "TargetActorHelper")


def cond_is_remove_result(field):
    return lambda d: d[0] == "call" and d[1].endswith("::remove") and d[2] and atom_has_field(d[2][0], field, "TargetActorHelper")


def cond_len_eq_one(field, kind=None):
    """`helper.<field>[K].len() == 1`; with `kind` given, K must be that execution kind ('*': the kind carried by the message being handled)"""
    def kind_ok(at):
        if kind is None:
            return True
        ks = atom_aggs(at, "ExecutionKind")
        if kind == "*":
            return not ks and any(a[0] == "field" and a[2] == "kind" for a in at)
        return ks == {kind}

    def p(d):
        if d[0] != "binop" or d[1] != "Eq":
            return False
        sides = [d[2], d[3]]
        has_len = any(any(y[0] == "call" and y[1].endswith("::len") and y[2] and atom_has_field(y[2][0], field, "TargetActorHelper") and
                          (kind_ok(y[2][0]) or (len(y) > 4 and y[4] and atom_has_field(y[4][0], field, "TargetActorHelper") and kind_ok(y[4][0]))) for y in s if isinstance(y, tuple)) for s in sides)
        has_one = any(any(y[0] == "const" and y[1].startswith("1") for y in s if isinstance(y, tuple)) for s in sides)
        return has_len and has_one
    return p


def cond_is_empty(field):
    return lambda d: d[0] == "call" and d[1].endswith("::is_empty") and d[2] and atom_has_field(d[2][0], field, "TargetActorHelper")


def fmt_conds(conds):
    out = []
    for (e, descs, pol) in conds:
        s = []
        for d in descs:
            if d[0] == "call":
                s.append(d[1].split("::")[-1] + "(..)")
            elif d[0] == "field":
                s.append(d[1])
            elif d[0] == "binop":
                s.append(d[1])
            elif d[0] == "not":
                s.append("!" + ",".join((x[1].split("::")[-1] if x[0] == "call" else str(x[1])) for x in d[1]))
            else:
                s.append(d[0])
        out.append(f"{'/'.join(s) or '?'}={pol}@L{body_line(e)}")
    return "; ".join(out)


def body_line(e):
    return e.src


def paths_within(body, region, target, limit=5000):
    """acyclic paths that stay inside `region`, from the region's entry blocks to block `target`"""
    live = body.reachable_blocks()
    entries = sorted({e.dst for e in body.edges if e.dst in region and e.src not in region and e.src in live})
    out = []

    def walk(bb, path, seen):
        if bb == target:
            out.append(list(path))
            if len(out) > limit:
                raise AnchorLost(f"analysis bound exceeded: more than {limit} paths inside a handler of {short(body.name)}")
            return
        for e in body.succ.get(bb, ()):
            if e.dst not in region or e.dst in seen:
                continue
            path.append(e)
            seen.add(e.dst)
            walk(e.dst, path, seen)
            seen.discard(e.dst)
            path.pop()

    for en in entries:
        walk(en, [], {en})
    return out


def _const_on_path(po):
    """a value that, on this path, is a constant returned by a spliced-in callee is reported as [call marker, const]: for feasibility only the constant counts"""
    consts = [o for o in po if o[0] == "const"]
    if len(consts) == 1 and all(o[0] in ("const", "call") for o in po):
        return consts
    return po


def feasible_path(body, p, start=None):
    """False when the path is contradictory on its face: the same once-assigned bool tested both ways, or a flag that was assigned a constant on this
    very path tested the other way (e.g. a predicate helper spliced into the view returned `true` and its caller took the `false` branch)"""
    seen_pol = {}
    blocks = ([p[0].src] if p else ([start] if start is not None else [])) + [e.dst for e in p]
    # enum variants known along the path: a local assigned `Some(..)` / `None` / `Ok(..)` .. on this very path (typically by a helper spliced into the
    # view: `fn ok_or_log(r) -> Option<T>`) cannot be matched as another variant further down
    known = {}
    TRY = {"Ok": "Continue", "Err": "Break", "Some": "Continue", "None": "Break"}
    for i, e in enumerate(p):
        bb = blocks[i]
        for st in body.stmts(bb):
            if st["lhs"]["proj"]:
                continue
            L = st["lhs"]["local"]
            rv = st["rv"]
            if rv["k"] == "agg" and rv.get("variant") and "adt" in rv:
                known[L] = rv["variant"]
            elif rv["k"] in ("use", "ref"):
                pl = rv.get("place") if rv["k"] == "ref" else (rv["op"]["place"] if rv["op"]["k"] in ("copy", "move") else None)
                if pl is not None and not [pr for pr in pl["proj"] if pr["k"] != "deref"] and pl["local"] in known:
                    known[L] = known[pl["local"]]
                else:
                    known.pop(L, None)
            else:
                known.pop(L, None)
        t = body.term(bb)
        if t["k"] == "call" and t.get("dest") is not None and not t["dest"]["proj"]:
            d = t["dest"]["local"]
            a0 = operand_local(t["args"][0]) if t["args"] else None
            if t["callee"] and callee_base(t).endswith("ops::Try>::branch") and a0 in known and known[a0] in TRY:
                known[d] = TRY[known[a0]]
            elif not (e.label is None and any(st.get("ret_of") for st in body.stmts(e.dst))):
                known.pop(d, None)
        l = e.label
        if l and l[0] == "variant" and l[3] and not [pr for pr in l[3]["proj"] if pr["k"] != "deref"]:
            v = known.get(l[3]["local"])
            if v is not None and v not in l[2]:
                return False
            if len(l[2]) == 1:
                known[l[3]["local"]] = l[2][0]
        if l and l[0] == "bool" and l[2] is not None:
            src = _bool_source_local(body, l[2])
            if src in seen_pol and seen_pol[src] != l[1]:
                return False
            seen_pol[src] = l[1]
            po = _const_on_path(path_origins(body, blocks, l[2], i))
            if len(po) == 1 and po[0][0] == "const" and po[0][1] in ("true", "false") and (po[0][1] == "true") != l[1]:
                return False
    return True


def decisions_to(body, region, target, allowed):
    """bool decisions taken on some path (inside `region`) to `target` that are not in `allowed`: [(edge, descs, polarity)].
    Path based, so a target reached through the else-branch of `A && B` sees both decisions (dominance would see none)."""
    bad = {}
    for p in paths_within(body, region, target):
        # discard infeasible paths: the same (once-assigned) bool local taken with both polarities, e.g. `if inserted && a {..} if inserted && b {..}`
        seen_pol = {}
        feasible = True
        blocks = ([p[0].src] if p else []) + [e.dst for e in p]
        for i, e in enumerate(p):
            l = e.label
            if l and l[0] == "bool" and l[2] is not None:
                src = _bool_source_local(body, l[2])
                if src in seen_pol and seen_pol[src] != l[1]:
                    feasible = False
                    break
                seen_pol[src] = l[1]
                # a flag assigned a constant earlier on this very path (`let c = a && b` assigns `false` where a is false) cannot be taken the other way
                po = _const_on_path(path_origins(body, blocks, l[2], i))
                if len(po) == 1 and po[0][0] == "const" and po[0][1] in ("true", "false") and (po[0][1] == "true") != l[1]:
                    feasible = False
                    break
        if not feasible:
            continue
        for e in p:
            l = e.label
            if l and l[0] == "bool" and l[2] is not None:
                descs = bool_atom_desc(body, l[2])
                if conditions_within([(e, descs, l[1])], allowed):
                    bad[(e.src, e.dst)] = (e, descs, l[1])
    return list(bad.values())


def _bool_source_local(body, l, depth=0):
    """the local a switched temporary is a plain copy of (so that two tests of one variable are recognised as the same decision)"""
    defs = body.prov.defs.get(l, ())
    if depth < 6 and len(defs) == 1 and defs[0][0] == "assign":
        rv = defs[0][1]["rv"]
        if rv["k"] == "use" and rv["op"]["k"] in ("copy", "move") and not rv["op"]["place"]["proj"]:
            return _bool_source_local(body, rv["op"]["place"]["local"], depth + 1)
    return l


# ------------------------------------------------------------------ exit-status success (shared by C02 / C05 / C07)
def _is_success_call(d):
    return d[0] == "call" and d[1].endswith("ExitStatus::success")


def exit_success_edges(body):
    """edges of `body` on which a process exit status is known to be a success: the true edge of `status.success()`, or the `0` edge of a match on
    `status.code()` (reached under `Some`). Returns (success edges, failure edges)."""
    ok, ko = [], []
    for e in body.edges:
        l = e.label
        if not l:
            continue
        if l[0] == "bool" and l[2] is not None:
            ds = bool_atom_desc(body, l[2])
            if any(_is_success_call(d) for d in ds):
                (ok if l[1] else ko).append(e)
            elif any(d[0] == "not" and any(_is_success_call(x) for x in d[1]) for d in ds):
                (ko if l[1] else ok).append(e)
        elif l[0] in ("val", "val-otherwise") and l[2] is not None:
            if origin_matches(origins(body, l[2]), lambda o: o[0] == "call" and o[1].endswith("ExitStatus::code")):
                if l[0] == "val" and l[1] == 0:
                    ok.append(e)
                else:
                    ko.append(e)
        elif l[0] == "variant" and l[3] and set(l[2]) == {"None"}:
            if origin_matches(origins(body, l[3]["local"]), lambda o: o[0] == "call" and o[1].endswith("ExitStatus::code")):
                ko.append(e)
    return ok, ko


def success_checker(f, fn_name, depth=0):
    """a local fn returning Result whose Ok is constructed only where the exit status is known to be a success, and that has an Err exit (a
    `check(status)?` helper). Judged on its own view."""
    if fn_name not in f.bodies or depth > 3:
        return False
    fb = f.view(f.coroutine_of(fn_name) or f.bodies[fn_name])
    G, _ = success_region(f, fb, depth + 1)
    oks = fb.aggregates("Result", "Ok")
    return bool(oks) and all(bb in G for bb, st in oks) and bool(fb.aggregates("Result", "Err") or [1 for bb, t in fb.calls() if "anyhow" in callee_base(t)])


def success_region(f, body, depth=0):
    """(blocks of `body` only reachable when the exit status is a success, blocks reachable from a failure edge): through a direct test, or through the
    Continue edge of a `?` applied to the result of a success_checker helper (which may itself be spliced into this view)"""
    ok, ko = exit_success_edges(body)
    G = set()
    for e in ok:
        G |= body.dominated_by_edge(e)
    for (tb, sb, ce, be) in try_edges(body):
        if ce is None or not body.term(tb)["args"]:
            continue
        o = origins(body, operand_local(body.term(tb)["args"][0])) if operand_local(body.term(tb)["args"][0]) is not None else []
        callees = {x[1] for x in o if x[0] in ("call", "await") and x[1]}
        if any(c in f.bodies and success_checker(f, c, depth) for c in callees):
            G |= body.dominated_by_edge(ce)
    F = set()
    for e in ko:
        reach = body.reach_from(e.dst) | {e.dst}
        org = body.origin(e.src) if hasattr(body, "origin") else body.name
        if org != body.name and org in f.bodies and f.bodies[org].ret in f.adts and f.adts[f.bodies[org].ret]["enum"]:
            # the test sits in a classifier spliced into this view (`BuildExit::from(status)`): what follows its return is decided by the variant it built
            reach = {x for x in reach if body.origin(x) == org}
        F |= reach
    # the exit status may first be classified into a small local enum (`BuildExit::{Success, Code(i), Signal(s)}`): a variant every construction of which
    # (anywhere in the crate) sits under a true `success()` stands for success, one built only under a false `success()` for failure
    kos = {}
    for ap, adt in f.adts.items():
        if not adt["enum"] or ap.startswith("std::") or ap.startswith("core::"):
            continue
        nm = ap.split("::")[-1]
        for v_ in adt["variants"]:
            sites_ = [(xb, sb) for xb in f.user_bodies() for (sb, ss) in xb.aggregates(nm, v_["name"]) if ss["rv"].get("adt") == ap]
            if not sites_:
                continue
            pol = set()
            for (xb, sb) in sites_:
                ok_x, ko_x = exit_success_edges(xb)
                in_ok = any(sb in xb.dominated_by_edge(e) for e in ok_x)
                in_ko = any(sb in (xb.reach_from(e.dst) | {e.dst}) for e in ko_x) and not in_ok
                pol.add("ok" if in_ok else "ko" if in_ko else "?")
            if pol == {"ok"}:
                G |= variant_region(body, nm, v_["name"])
            elif pol == {"ko"}:
                F |= variant_region(body, nm, v_["name"])
                kos.setdefault(ap, set()).add(v_["name"])
    # or-patterns (`Code(_) | Signal(_) => Err(..)`): what is reached from the failure variants of a switch and from none of its other variants
    for ap, names in kos.items():
        sw = {}
        for e in body.edges:
            if e.label and e.label[0] == "variant" and e.label[1] == ap:
                sw.setdefault(e.src, []).append(e)
        for sb, es in sw.items():
            ko_r, other_r = set(), set()
            for e in es:
                r_ = body.reach_from(e.dst) | {e.dst}
                if len(e.label[2]) == 1 and e.label[2][0] in names:
                    ko_r |= r_
                else:
                    other_r |= r_
            F |= (ko_r - other_r)
    return G, F


def bound_const(helper, op, cv, ct):
    """constant ('true'/'false'/..) of operand `op` of constructor helper `helper` as seen at call `ct` in view `cv`: the operand itself when it is a
    literal, else - when it is one of the helper's parameters - the literal the call passes (through moves and spliced-in wrappers); None otherwise"""
    if op is None:
        return None
    v = const_val(op)
    if v is not None:
        return v
    for a in helper.prov.operand_atoms(op, interproc=False):
        if a[0] == "param" and a[1] - 1 < len(ct["args"]):
            arg = ct["args"][a[1] - 1]
            v = const_val(arg)
            if v is not None:
                return v
            l = operand_local(arg)
            if l is not None:
                os_ = [o for o in origins(cv, l) if o[0] == "const"]
                vals = {o[1] for o in os_}
                if len(vals) == 1 and len(os_) == len([o for o in origins(cv, l) if o[0] != "param"]):
                    return next(iter(vals))
    return None
