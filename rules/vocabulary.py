"""Vocabulary alignment: the rules speak of the protocol's vocabulary - `ActorInputMessage::Ok { kind, target_id, actual }`, `ExecutionKind::Build`,
`TargetId`, `WORK_DIR_NAME` ... - by the names these items have in the reference tree (vocabulary.json, generated from the pinned tree by
tools/gen_vocabulary.py). A consistent *rename* of a type, a variant, a field or a constant is behaviour-preserving; without this layer it would make
every rule anchored in the renamed item fail closed (57 of 221 compiling single-identifier renames did, tools/rename_sweep.py).

At load time the crate-local ADTs and constants of the analysed tree are matched with the reference vocabulary:
  * an item found under its reference path is itself;
  * a reference item that is missing is paired with an analysed item that is new, when exactly one new item has the same *shape* (struct/enum, number
    of variants, number and types of the fields of each variant - types compared after substituting the pairs already established; constants: same
    type and same value) - trivially shaped ADTs (at most one field in all) additionally have to sit in the same source file;
  * inside a paired ADT, variants and fields that kept their name are themselves, the others are paired by position when the counts agree.
The analysed facts are then rewritten to the reference names (paths textually - they are unique strings; variants and fields structurally, where the
ADT is known: definitions, aggregates, switch tables, field projections and the downcast preceding them). Everything that cannot be paired is left
as it is (the rules then fail closed exactly as before). The mapping applied is reported in the evidence (`canonicalised_vocabulary`)."""
import json, os, re

HERE = os.path.dirname(os.path.abspath(__file__))
VOCAB_PATH = os.path.join(HERE, "vocabulary.json")


def _is_source_adt(a):
    p = a["path"]
    return not (a.get("exp") or "<impl" in p or "{closure" in p or "::_::" in p or "__" in p or p.startswith("<") or "::RE" == p[-4:])


def _const_value(b):
    for blk in b["blocks"]:
        for st in blk["stmts"]:
            if st["lhs"]["local"] == 0 and st["rv"]["k"] == "use" and st["rv"]["op"]["k"] == "const":
                return st["rv"]["op"].get("val")
    return None


def build_vocab(d):
    """the vocabulary of a fact dump: source-level ADTs (with variants and fields) and plain constants"""
    adts = {}
    for a in d["adts"]:
        if _is_source_adt(a) and a["path"] not in adts:
            adts[a["path"]] = {"enum": a["enum"], "file": a.get("file"), "variants": [{"name": v["name"], "fields": [{"name": f["name"], "ty": f["ty"]} for f in v["fields"]]} for v in a["variants"]]}
    consts = {}
    for b in d["bodies"]:
        if (b["kind"].startswith("Const") or b["kind"].startswith("Static")) and "{" not in b["def"] and "<" not in b["def"] and "::_" not in b["def"]:
            v = _const_value(b)
            if v is not None:
                consts[b["def"]] = {"ty": b.get("ret"), "val": v}
    return {"adts": adts, "consts": consts}


def _norm_ty(ty, known, pairs):
    """type string with crate-local ADT paths replaced: paired ones by their reference path, the others by `?`"""
    def sub(m):
        p = m.group(0)
        if p in pairs:
            return pairs[p]
        return "?" if p in known else p
    return re.sub(r"[A-Za-z_][\w]*(?:::[A-Za-z_][\w]*)+|[A-Z]\w*", sub, ty)


def _shape(a, known, pairs):
    return (a["enum"], tuple((len(v["fields"]), tuple(_norm_ty(f["ty"], known, pairs) for f in v["fields"])) for v in a["variants"]))


def _trivial(a):
    return sum(len(v["fields"]) for v in a["variants"]) <= 1 and len(a["variants"]) <= 1


def align(d, vocab=None):
    """rewrite the fact dump `d` in place to the reference vocabulary; returns {'types': {analysed path: reference path}, 'variants': {...}, 'fields': {...},
    'consts': {...}} (empty maps when nothing was renamed or no reference vocabulary is available)"""
    applied = {"types": {}, "variants": {}, "fields": {}, "consts": {}}
    if vocab is None:
        if not os.path.exists(VOCAB_PATH):
            return applied
        vocab = json.load(open(VOCAB_PATH))
    cur = build_vocab(d)
    ref_adts, cur_adts = vocab["adts"], cur["adts"]
    pairs = {p: p for p in cur_adts if p in ref_adts}          # analysed -> reference
    missing = [p for p in ref_adts if p not in cur_adts]
    new = [p for p in cur_adts if p not in ref_adts]
    known_cur = set(cur_adts)
    known_ref = set(ref_adts)
    for _ in range(6):
        progress = False
        inv = {v: v for v in pairs.values()}
        for rp in list(missing):
            rs = _shape(ref_adts[rp], known_ref, inv)
            cands = [cp for cp in new if _shape(cur_adts[cp], known_cur, pairs) == rs and
                     (not _trivial(ref_adts[rp]) or cur_adts[cp].get("file") == ref_adts[rp].get("file"))]
            # the same shape can also be wanted by another missing reference item: then it is ambiguous
            rivals = [rq for rq in missing if rq != rp and _shape(ref_adts[rq], known_ref, inv) == rs]
            if len(cands) == 1 and not rivals:
                pairs[cands[0]] = rp
                applied["types"][cands[0]] = rp
                missing.remove(rp)
                new.remove(cands[0])
                progress = True
        if not progress:
            break
    # variants and fields of paired ADTs
    vmap, fmap = {}, {}      # analysed adt path -> {variant: ref variant};  (analysed adt path, analysed variant) -> {field: ref field}
    for cp, rp in pairs.items():
        ca, ra = cur_adts[cp], ref_adts[rp]
        cvs, rvs = [v["name"] for v in ca["variants"]], [v["name"] for v in ra["variants"]]
        vm = {}
        if cvs != rvs and len(cvs) == len(rvs):
            for i, (cv, rv) in enumerate(zip(cvs, rvs)):
                if cv != rv and cv not in rvs and rv not in cvs and len(ca["variants"][i]["fields"]) == len(ra["variants"][i]["fields"]):
                    vm[cv] = rv
        if not ca["enum"] and len(cvs) == 1 and len(rvs) == 1 and cvs[0] != rvs[0]:
            vm[cvs[0]] = rvs[0]     # the single "variant" of a struct is named after the struct
        if vm:
            vmap[cp] = vm
        for i, cv in enumerate(ca["variants"]):
            rname = vm.get(cv["name"], cv["name"])
            rv = next((v for v in ra["variants"] if v["name"] == rname), None)
            if rv is None or len(rv["fields"]) != len(cv["fields"]):
                continue
            cfs, rfs = [f["name"] for f in cv["fields"]], [f["name"] for f in rv["fields"]]
            fm = {}
            for cf, rf in zip(cfs, rfs):
                if cf != rf and cf not in rfs and rf not in cfs:
                    fm[cf] = rf
            if fm:
                fmap[(cp, cv["name"])] = fm
    # constants
    cmap = {}
    ref_c, cur_c = vocab.get("consts", {}), cur["consts"]
    miss_c = [p for p in ref_c if p not in cur_c]
    new_c = [p for p in cur_c if p not in ref_c]
    for rp in miss_c:
        cands = [cp for cp in new_c if cur_c[cp] == ref_c[rp]]
        rivals = [rq for rq in miss_c if rq != rp and ref_c[rq] == ref_c[rp]]
        if len(cands) == 1 and not rivals:
            cmap[cands[0]] = rp
    if not applied["types"] and not vmap and not fmap and not cmap:
        return applied
    for cp, vm in vmap.items():
        applied["variants"][cp] = vm
    for (cp, cv), fm in fmap.items():
        applied["fields"][f"{cp}::{cv}"] = fm

    # ---- structured rewrite of variants and fields (before the paths change)
    def strip_ty(ty):
        return re.sub(r"^(&(mut )?|\*(const|mut) )+", "", ty or "").split("<")[0].strip()

    def fix_place(p, locals_):
        proj = p.get("proj") or []
        if not proj:
            return
        adt = strip_ty(locals_[p["local"]]["ty"]) if p.get("local") is not None and p["local"] < len(locals_) else None
        variant = None
        for pr in proj:
            if pr["k"] == "deref":
                continue
            if pr["k"] == "downcast":
                if adt in vmap and pr["variant"] in vmap[adt]:
                    variant = pr["variant"]
                    pr["variant"] = vmap[adt][pr["variant"]]
                else:
                    variant = pr["variant"]
                continue
            if pr["k"] == "field":
                of = pr.get("of")
                owner = of if of in cur_adts else adt
                if owner in cur_adts:
                    vs = cur_adts[owner]["variants"]
                    vname = variant if variant is not None else (vs[0]["name"] if len(vs) == 1 else None)
                    fm = fmap.get((owner, vname))
                    if fm and pr.get("name") in fm:
                        pr["name"] = fm[pr["name"]]
                    # the type of the projected field becomes the current ADT for what follows
                    fty = None
                    for v in vs:
                        if v["name"] == vname or len(vs) == 1:
                            idx = pr.get("idx")
                            if idx is not None and idx < len(v["fields"]):
                                fty = v["fields"][idx]["ty"]
                    adt = strip_ty(fty) if fty else None
                else:
                    adt = None
                variant = None
                continue
            adt, variant = None, None

    def walk(x, locals_):
        if isinstance(x, dict):
            if "local" in x and "proj" in x:
                fix_place(x, locals_)
            if x.get("k") == "agg" and x.get("adt") in cur_adts:
                a = x["adt"]
                v0 = x.get("variant")
                fm = fmap.get((a, v0))
                if fm and x.get("fields"):
                    x["fields"] = [fm.get(n, n) for n in x["fields"]]
                if a in vmap and v0 in vmap[a]:
                    x["variant"] = vmap[a][v0]
            if x.get("k") == "switch" and x.get("adt") in vmap:
                for v in x.get("variants") or []:
                    if v.get("name") in vmap[x["adt"]]:
                        v["name"] = vmap[x["adt"]][v["name"]]
            for v in x.values():
                walk(v, locals_)
        elif isinstance(x, list):
            for v in x:
                walk(v, locals_)

    if vmap or fmap:
        for b in d["bodies"]:
            walk(b["blocks"], b["locals"])
        for a in d["adts"]:
            p = a["path"]
            if p in cur_adts:
                for v in a["variants"]:
                    fm = fmap.get((p, v["name"]))
                    if fm:
                        for f in v["fields"]:
                            f["name"] = fm.get(f["name"], f["name"])
                    if p in vmap and v["name"] in vmap[p]:
                        v["name"] = vmap[p][v["name"]]
    # ---- textual rewrite of the paths (types and constants): unique strings of the dump
    ren = dict(applied["types"])
    ren.update(cmap)
    applied["consts"] = cmap
    if ren:
        txt = json.dumps({k: d[k] for k in ("adts", "impls", "bodies")})
        for old in sorted(ren, key=len, reverse=True):
            txt = re.sub(r"(?<![\w:])" + re.escape(old) + r"(?![\w])", ren[old].replace("\\", "\\\\"), txt)
            # a type of the crate root, or re-exported: also bare in some printed paths (`<TargetIdRn as Display>::fmt`)
        nd = json.loads(txt)
        for k in ("adts", "impls", "bodies"):
            d[k] = nd[k]
    return applied
