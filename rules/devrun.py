import sys, importlib, time
from facts import Facts; from roles import Roles; from engine import *
mods=[m for m in sys.argv[2:] if not m.startswith('-')]
for m in mods: importlib.import_module(m)
t=time.time(); f=Facts(sys.argv[1]); r=Roles(f); ctx=Ctx(f,r)
res=evaluate(ctx)
for i in res:
    print(('OK  ' if i.held else 'BAD '), i.key, '|', '; '.join(i.sites[:3]), '|', (i.detail or '') if i.held else i.found)
print(len(res),'instances',sum(1 for i in res if not i.held),'violations', round(time.time()-t,2),'s')
