"""Fact base: loading the zfacts JSON and the analysis primitives P1-P10 of DESIGN.md section 3.2.

Everything here works on resolved entities (def paths, ADT/variant/field names, resolved callees,
CFG edges) and never on source text."""
import json, collections, re, sys

sys.setrecursionlimit(20000)


class Edge:
    __slots__ = ("src", "dst", "idx", "label")

    def __init__(self, src, dst, idx, label):
        self.src, self.dst, self.idx, self.label = src, dst, idx, label

    def __repr__(self):
        return f"bb{self.src}->bb{self.dst}{'' if self.label is None else ' ' + str(self.label[:3])}"


def _short_adt(p):
    return p or ""


class Body:
    def __init__(self, j, facts):
        self.j = j
        self.facts = facts
        self.name = j["def"]
        k = j["kind"]
        self.kind = "Const" if k.startswith("Const") or k.startswith("AssocConst") else ("Static" if k.startswith("Static") else k)
        self.parent = j.get("parent") or None
        self.coroutine = j.get("coroutine") or None  # e.g. "Desugared(Async, Fn)" / "Desugared(Async, Block)"
        self.argc = j["argc"]
        self.locals = j["locals"]
        self.ret = j["ret"]
        self.file = j["span"]["file"]
        self.lo = j["span"]["lo"]
        self.hi = j["span"]["hi"]
        self.from_expansion = j["span"].get("exp", False)
        self.blocks = {b["id"]: b for b in j["blocks"]}
        self.edges = []
        self.succ = collections.defaultdict(list)  # block -> [Edge]
        self.pred = collections.defaultdict(list)
        for b in j["blocks"]:
            if b["cleanup"]:
                continue
            for (t, lab) in self._succ(b):
                if t in self.blocks and self.blocks[t]["cleanup"]:
                    continue
                e = Edge(b["id"], t, len(self.succ[b["id"]]), lab)
                self.edges.append(e)
                self.succ[b["id"]].append(e)
                self.pred[t].append(e)
        self._idom = None
        self._prov = None
        self._reach = {}
        self._rreach = {}

    # ---------------------------------------------------------------- P1: CFG
    def _succ(self, b):
        t = b["term"]
        k = t["k"]
        if k in ("goto", "drop", "assert"):
            return [(t["target"], None)]
        if k == "call":
            return [(t["target"], None)] if t["target"] >= 0 else []
        if k == "yield":
            return [(t["resume"], ("resume",))]
        if k == "switch":
            out = []
            d = t["discr"]
            dl = d["place"]["local"] if d["k"] in ("copy", "move") else None
            if "variants" in t:
                vmap = {str(v["val"]): v for v in t["variants"]}
                seen = set()
                on = t.get("on")
                for (v, tg) in t["targets"]:
                    vv = vmap.get(str(v))
                    nm = vv["name"] if vv else str(v)
                    seen.add(nm)
                    out.append((tg, ("variant", t.get("adt"), (nm,), on, tuple(vv["ftys"]) if vv else ())))
                rest = tuple(v["name"] for v in t["variants"] if v["name"] not in seen)
                if rest:
                    ftys = tuple(vmap[str(v["val"])]["ftys"][0] if vmap[str(v["val"])]["ftys"] else "" for v in t["variants"] if v["name"] in rest)
                    out.append((t["otherwise"], ("variant", t.get("adt"), rest, on, ftys if len(rest) == 1 else ())))
                else:
                    out.append((t["otherwise"], ("unreachable-otherwise",)))
                return out
            if t.get("bool"):
                for (v, tg) in t["targets"]:
                    out.append((tg, ("bool", v != 0, dl)))
                # the otherwise edge of a bool switch is the value not listed
                listed = {v for (v, _) in t["targets"]}
                out.append((t["otherwise"], ("bool", (0 in listed), dl)))
                return out
            for (v, tg) in t["targets"]:
                out.append((tg, ("val", v, dl)))
            out.append((t["otherwise"], ("val-otherwise", tuple(v for v, _ in t["targets"]), dl)))
            return out
        return []

    def normal_blocks(self):
        return [b for b in self.j["blocks"] if not b["cleanup"]]

    def term(self, bb):
        return self.blocks[bb]["term"]

    def stmts(self, bb):
        return self.blocks[bb]["stmts"]

    def calls(self):
        """(block id, call terminator) for every call with a statically known callee, normal blocks only."""
        for b in self.j["blocks"]:
            if b["cleanup"]:
                continue
            t = b["term"]
            if t["k"] == "call" and t["callee"]:
                yield b["id"], t

    def line_of(self, bb):
        t = self.blocks[bb]["term"]
        if "line" in t:
            return t["line"]
        for st in self.blocks[bb]["stmts"]:
            return st.get("line")
        return self.lo

    def loc(self, bb=None, line=None):
        if line is None:
            line = self.line_of(bb) if bb is not None else self.lo
        return f"{self.file}:{line}"

    # ------------------------------------------------- P2: dominators (edge-split graph)
    def _build_dom(self):
        # nodes: ('b', id) and ('e', index into self.edges)
        succ = collections.defaultdict(list)
        for i, e in enumerate(self.edges):
            succ[("b", e.src)].append(("e", i))
            succ[("e", i)].append(("b", e.dst))
        entry = ("b", 0)
        # reverse postorder (iterative DFS)
        order = []
        seen = {entry}
        stack = [(entry, iter(succ[entry]))]
        while stack:
            n, it = stack[-1]
            adv = False
            for m in it:
                if m not in seen:
                    seen.add(m)
                    stack.append((m, iter(succ[m])))
                    adv = True
                    break
            if not adv:
                order.append(n)
                stack.pop()
        order.reverse()
        idx = {n: i for i, n in enumerate(order)}
        preds = collections.defaultdict(list)
        for n in order:
            for m in succ[n]:
                if m in idx:
                    preds[m].append(n)
        idom = {entry: entry}

        def intersect(a, b):
            while a != b:
                while idx[a] > idx[b]:
                    a = idom[a]
                while idx[b] > idx[a]:
                    b = idom[b]
            return a

        changed = True
        while changed:
            changed = False
            for n in order[1:]:
                ps = [p for p in preds[n] if p in idom]
                if not ps:
                    continue
                new = ps[0]
                for p in ps[1:]:
                    new = intersect(new, p)
                if idom.get(n) != new:
                    idom[n] = new
                    changed = True
        self._idom = idom
        # children lists for subtree queries
        ch = collections.defaultdict(list)
        for n, d in idom.items():
            if n != d:
                ch[d].append(n)
        self._domch = ch

    def _subtree_blocks(self, node):
        if self._idom is None:
            self._build_dom()
        out = set()
        st = [node]
        while st:
            n = st.pop()
            if n[0] == "b":
                out.add(n[1])
            st.extend(self._domch.get(n, ()))
        return out

    def dominated_by_edge(self, e):
        """blocks only reachable through edge e (e is an Edge of this body)"""
        i = self.edges.index(e)
        if self._idom is None:
            self._build_dom()
        if ("e", i) not in self._idom:
            return set()
        return self._subtree_blocks(("e", i))

    def dominated_by_block(self, bb):
        if self._idom is None:
            self._build_dom()
        if ("b", bb) not in self._idom:
            return set()
        return self._subtree_blocks(("b", bb))

    def dominates(self, a, b):
        """block a dominates block b"""
        if self._idom is None:
            self._build_dom()
        n = ("b", b)
        if n not in self._idom:
            return False
        while True:
            if n == ("b", a):
                return True
            d = self._idom[n]
            if d == n:
                return False
            n = d

    def region(self, pred, within=None):
        """P3/P4: blocks dominated by some edge whose (label, edge) satisfies pred; optionally the edge's source must lie in `within`."""
        out = set()
        for e in self.edges:
            if e.label is None:
                continue
            if within is not None and e.src not in within:
                continue
            if pred(e.label, e):
                out |= self.dominated_by_edge(e)
        return out

    def reachable_blocks(self):
        return self.reach_from(0) | {0}

    def reach_from(self, bb, avoid=()):
        """blocks reachable from bb by >=1 normal edge (bb itself only if on a cycle)"""
        key = (bb, tuple(sorted(avoid)))
        if key in self._reach:
            return self._reach[key]
        seen = set()
        st = [bb]
        while st:
            x = st.pop()
            for e in self.succ.get(x, ()):
                if e.dst in avoid:
                    continue
                if e.dst not in seen:
                    seen.add(e.dst)
                    st.append(e.dst)
        self._reach[key] = seen
        return seen

    def reach_to(self, bb):
        if bb in self._rreach:
            return self._rreach[bb]
        seen = set()
        st = [bb]
        while st:
            x = st.pop()
            for e in self.pred.get(x, ()):
                if e.src not in seen:
                    seen.add(e.src)
                    st.append(e.src)
        self._rreach[bb] = seen
        return seen

    def return_blocks(self):
        return [b["id"] for b in self.normal_blocks() if b["term"]["k"] == "return"]

    # ------------------------------------------------- P10: natural loops
    def back_edges(self):
        return [e for e in self.edges if self.dominates(e.dst, e.src)]

    def natural_loops(self):
        """list of (header, set(blocks), [exit edges])"""
        loops = collections.defaultdict(set)
        for e in self.back_edges():
            body = {e.dst, e.src}
            st = [e.src]
            while st:
                x = st.pop()
                if x == e.dst:
                    continue
                for pe in self.pred.get(x, ()):
                    if pe.src not in body:
                        body.add(pe.src)
                        st.append(pe.src)
            loops[e.dst] |= body
        out = []
        for h, blks in loops.items():
            exits = [e for b in blks for e in self.succ.get(b, ()) if e.dst not in blks and self.blocks[e.dst]["term"]["k"] != "unreachable"]
            out.append((h, blks, exits))
        return out

    # ------------------------------------------------- P7: provenance
    @property
    def prov(self):
        if self._prov is None:
            self._prov = Prov(self)
        return self._prov

    def local_name(self, l):
        return self.locals[l].get("name")

    def local_ty(self, l):
        return self.locals[l]["ty"]

    def aggregates(self, adt_suffix=None, variant=None):
        """(block, stmt) for every aggregate construction of the ADT (suffix match on the path) / variant"""
        for b in self.normal_blocks():
            for st in b["stmts"]:
                rv = st["rv"]
                if rv["k"] == "agg" and "adt" in rv:
                    if adt_suffix is not None and not path_ends(rv["adt"], adt_suffix):
                        continue
                    if variant is not None and rv["variant"] != variant:
                        continue
                    yield b["id"], st


def path_ends(path, suffix):
    return path == suffix or path.endswith("::" + suffix)


def callee_base(t):
    c = t["callee"]
    return c["rbase"] or c["base"]


def callee_decl(t):
    return t["callee"]["declared"]


def operand_local(o):
    if o["k"] in ("copy", "move"):
        return o["place"]["local"]
    return None


def place_fields(p):
    return [pr["name"] for pr in p["proj"] if pr["k"] == "field"]


def rv_sources(rv):
    """(places read, constant operands)"""
    k = rv["k"]
    pl, cs = [], []

    def op(o):
        if o["k"] in ("copy", "move"):
            pl.append(o["place"])
        elif o["k"] == "const":
            cs.append(o)

    if k == "use":
        op(rv["op"])
    elif k in ("ref", "rawptr", "discr"):
        pl.append(rv["place"])
    elif k == "binop":
        op(rv["a"])
        op(rv["b"])
    elif k == "unop":
        op(rv["a"])
    elif k == "cast":
        op(rv["op"])
    elif k == "agg":
        for o in rv["ops"]:
            op(o)
    return pl, cs


def const_atoms(c):
    out = {("const", c["val"])}
    if "def" in c:
        out.add(("constdef", c["def"]))
    if "static" in c:
        out.add(("static", c["static"]))
    if "fn" in c:
        out.add(("fn", c["fn"]))
    return out


class Prov:
    """P7 derives-from, flow-insensitive inside a body; crosses local calls through return summaries.

    atoms: ('param', i) ('field', adt, name) ('variant', name) ('agg', adt, variant) ('const', val)
           ('constdef', path) ('static', path) ('fn', path) ('callres', callee base) ('closure', def) ('coroutine', def)
           ('tuple',) ('binop', op) ('unop', op) ('localname', name)
    """

    def __init__(self, body):
        self.b = body
        self.defs = collections.defaultdict(list)  # local -> [(kind, payload, block)]
        for blk in body.normal_blocks():
            for st in blk["stmts"]:
                self.defs[st["lhs"]["local"]].append(("assign", st, blk["id"]))
            t = blk["term"]
            if t["k"] == "call":
                self.defs[t["dest"]["local"]].append(("call", t, blk["id"]))
                # a call may write through its &mut arguments: those locals' referents derive from the other args
                for a in t["args"]:
                    l = operand_local(a)
                    if l is not None and body.locals[l]["ty"].startswith("&mut "):
                        self.defs[l].append(("mutarg", t, blk["id"]))
            elif t["k"] == "yield":
                pass
        self._memo = {}

    def place_atoms(self, p, **kw):
        out = set()
        for pr in p["proj"]:
            if pr["k"] == "field":
                out.add(("field", pr["of"], pr["name"]))
            elif pr["k"] == "downcast":
                out.add(("variant", pr["variant"]))
        return out | self.atoms(p["local"], **kw)

    def operand_atoms(self, o, **kw):
        if o["k"] in ("copy", "move"):
            return self.place_atoms(o["place"], **kw)
        if o["k"] == "const":
            return const_atoms(o)
        return set()

    def atoms(self, local, interproc=True):
        key = (local, interproc)
        if key in self._memo:
            return self._memo[key]
        out = set()
        seen = set()
        st = [local]
        while st:
            l = st.pop()
            if l in seen:
                continue
            seen.add(l)
            if 1 <= l <= self.b.argc:
                out.add(("param", l))
            nm = self.b.locals[l].get("name")
            if nm:
                out.add(("localname", nm))
            for kind, x, bb in self.defs.get(l, ()):
                if kind == "assign":
                    rv = x["rv"]
                    pl, cs = rv_sources(rv)
                    if rv["k"] == "agg":
                        if "adt" in rv:
                            out.add(("agg", rv["adt"], rv["variant"]))
                        elif "tuple" in rv:
                            out.add(("tuple",))
                        elif "closure" in rv:
                            out.add(("closure", rv["closure"]))
                            if interproc:
                                out |= self.b.facts.ret_atoms(rv["closure"])
                        elif "coroutine" in rv:
                            out.add(("coroutine", rv["coroutine"]))
                    elif rv["k"] == "binop":
                        out.add(("binop", rv["op"]))
                    elif rv["k"] == "unop":
                        out.add(("unop", rv["op"]))
                    elif rv["k"] == "discr":
                        out.add(("discr",))
                    for c in cs:
                        out |= const_atoms(c)
                    for p in pl:
                        for pr in p["proj"]:
                            if pr["k"] == "field":
                                out.add(("field", pr["of"], pr["name"]))
                            elif pr["k"] == "downcast":
                                out.add(("variant", pr["variant"]))
                            elif pr["k"] == "index":
                                st.append(pr["local"])
                        st.append(p["local"])
                else:
                    t = x
                    if t["callee"]:
                        cb = callee_base(t)
                        out.add(("callres", cb))
                        if interproc and t["callee"]["local"]:
                            out |= self.b.facts.ret_atoms(cb)
                    for a in t["args"]:
                        if a["k"] in ("copy", "move"):
                            for pr in a["place"]["proj"]:
                                if pr["k"] == "field":
                                    out.add(("field", pr["of"], pr["name"]))
                                elif pr["k"] == "downcast":
                                    out.add(("variant", pr["variant"]))
                            st.append(a["place"]["local"])
                        elif a["k"] == "const":
                            out |= const_atoms(a)
                    fo = t.get("func")
                    if fo and fo["k"] in ("copy", "move"):
                        st.append(fo["place"]["local"])
        self._memo[key] = out
        return out

    # direct producer: follow whole-local moves/copies back to the producing call or aggregate
    def direct_producers(self, local):
        out = []
        seen = set()
        st = [local]
        while st:
            l = st.pop()
            if l in seen:
                continue
            seen.add(l)
            for kind, x, bb in self.defs.get(l, ()):
                if kind == "call":
                    out.append(("call", x, bb))
                elif kind == "assign":
                    rv = x["rv"]
                    if rv["k"] == "agg":
                        out.append(("agg", x, bb))
                    elif rv["k"] == "use" and rv["op"]["k"] in ("copy", "move") and not rv["op"]["place"]["proj"]:
                        st.append(rv["op"]["place"]["local"])
                    elif rv["k"] == "use" and rv["op"]["k"] == "const":
                        out.append(("const", x, bb))
                    elif rv["k"] == "ref" and not rv["place"]["proj"]:
                        st.append(rv["place"]["local"])
                    elif rv["k"] == "cast" and rv["op"]["k"] in ("copy", "move") and not rv["op"]["place"]["proj"]:
                        st.append(rv["op"]["place"]["local"])
                    else:
                        out.append(("expr", x, bb))
        return out

    def uses_of(self, local):
        """(kind, payload, block) for every read of the local (whole or projected)"""
        out = []
        for blk in self.b.normal_blocks():
            for st in blk["stmts"]:
                pl, _ = rv_sources(st["rv"])
                if any(p["local"] == local for p in pl):
                    out.append(("assign", st, blk["id"]))
            t = blk["term"]
            if t["k"] == "call":
                if any(operand_local(a) == local for a in t["args"]):
                    out.append(("call", t, blk["id"]))
            elif t["k"] == "switch" and operand_local(t["discr"]) == local:
                out.append(("switch", t, blk["id"]))
            elif t["k"] == "yield" and operand_local(t["value"]) == local:
                out.append(("yield", t, blk["id"]))
        return out

    def flows_forward(self, local, limit=200):
        """locals that (transitively) receive the value of `local` by move/copy/ref/cast/aggregate/call-through"""
        seen = {local}
        st = [local]
        while st and len(seen) < limit:
            l = st.pop()
            for kind, x, bb in self.uses_of(l):
                if kind == "assign":
                    d = x["lhs"]["local"]
                elif kind == "call":
                    d = x["dest"]["local"]
                else:
                    continue
                if d not in seen:
                    seen.add(d)
                    st.append(d)
        return seen


class Facts:
    def __init__(self, path):
        d = json.load(open(path))
        self.meta = {k: d[k] for k in ("crate", "nonce", "rustc", "test_harness", "debug_assertions", "missing_bodies") if k in d}
        self.adt_list = d["adts"]  # several derive-generated ADTs can share one path (serde's `__Field` per enum variant)
        self.adts = {}
        for a in d["adts"]:
            self.adts.setdefault(a["path"], a)
        self.impls = d["impls"]
        self.bodies = {}
        self.duplicate_names = 0
        for bj in d["bodies"]:
            b = Body(bj, self)
            if b.name in self.bodies:
                # derive-generated items of different enum variants can share one printed path: keep them all, disambiguated
                k = 2
                while f"{b.name}#{k}" in self.bodies:
                    k += 1
                b.name = f"{b.name}#{k}"
                self.duplicate_names += 1
            self.bodies[b.name] = b
        self._ret = {}
        self._ret_inprogress = set()
        self._cg = None
        self.derived_prefixes = tuple(f"<{i['self']} as {i['trait']}" for i in self.impls if i["derived"])

    # bodies that are code (not const/static initialisers)
    def code_bodies(self):
        return [b for b in self.bodies.values() if b.kind not in ("Const", "Static")]

    def is_derived(self, body):
        """body belongs to an `#[automatically_derived]` impl (derive(Clone, PartialEq, Serialize, ...))"""
        n = body.name
        return n.startswith("<") and any(n.startswith(p + ">::") or n.startswith(p + "<") for p in self.derived_prefixes) or "::_::<impl" in n or n.startswith("_::")

    def user_bodies(self):
        """code bodies written by the user (not derive-generated)"""
        return [b for b in self.code_bodies() if not self.is_derived(b)]

    def body(self, name):
        return self.bodies.get(name)

    def find(self, suffix):
        return [b for n, b in self.bodies.items() if path_ends(n, suffix)]

    def coroutine_of(self, fn_name):
        """the async body of an `async fn` (its {closure#0})"""
        return self.bodies.get(fn_name + "::{closure#0}")

    def ret_atoms(self, name):
        """atoms the return value of a local body derives from (minus its own params), following into the coroutine of async fns"""
        if name in self._ret:
            return self._ret[name]
        if name in self._ret_inprogress:
            return set()
        b = self.bodies.get(name)
        if b is None:
            return set()
        self._ret_inprogress.add(name)
        at = set(b.prov.atoms(0))
        extra = set()
        for a in at:
            if a[0] in ("coroutine", "closure") and a[1] in self.bodies and a[0] == "coroutine":
                extra |= self.ret_atoms(a[1])
        at |= extra
        at = {a for a in at if a[0] not in ("param", "localname")}
        self._ret_inprogress.discard(name)
        self._ret[name] = at
        return at

    def const_value(self, path_suffix):
        """value string of a const/static item whose initialiser is a plain constant"""
        for b in self.bodies.values():
            if b.kind in ("Const", "Static") and path_ends(b.name, path_suffix):
                for blk in b.normal_blocks():
                    for st in blk["stmts"]:
                        if st["lhs"]["local"] == 0 and st["rv"]["k"] == "use" and st["rv"]["op"]["k"] == "const":
                            return st["rv"]["op"]["val"]
        return None

    # ------------------------------------------------- P9: call graph
    @property
    def cg(self):
        if self._cg is None:
            self._cg = CallGraph(self)
        return self._cg


TASK_SPAWN = ("async_std::task::spawn", "async_std::task::spawn_local", "async_std::task::Builder::spawn")
TASK_BLOCK_ON = ("async_std::task::block_on",)
SPAWN_BLOCKING = ("async_std::task::spawn_blocking",)

# bounded dispatch through external generic callees into local trait impls
_DISPATCH_TRAITS = {
    "std::convert::Into::into": ["std::convert::From"],
    "core::convert::Into::into": ["std::convert::From"],
    "std::string::ToString::to_string": ["std::fmt::Display"],
    "alloc::string::ToString::to_string": ["std::fmt::Display"],
}


class CallGraph:
    def __init__(self, facts):
        self.f = facts
        self.edges = collections.defaultdict(set)       # caller -> callee body names (calls, constructs, poll)
        self.call_sites = collections.defaultdict(list)  # callee -> [(caller body, block)]
        self.spawn_roots = collections.defaultdict(list)  # body name -> [(how, in body, block)]
        self.spawn_edges = set()                          # (caller, callee) pairs that are task-creation, not membership
        local = set(facts.bodies)
        impl_methods = collections.defaultdict(list)      # trait path -> [(self ty, body name)]
        for n in local:
            m = re.match(r"^<(.+) as (.+?)>::(\w+)$", n)
            if m:
                impl_methods[m.group(2).split("<")[0]].append((m.group(1), n))
        self.impl_methods = impl_methods
        for n, b in facts.bodies.items():
            for blk in b.normal_blocks():
                for st in blk["stmts"]:
                    rv = st["rv"]
                    if rv["k"] == "agg":
                        for key in ("closure", "coroutine"):
                            if key in rv and rv[key] in local:
                                self.edges[n].add(rv[key])
                                self.call_sites[rv[key]].append((n, blk["id"]))
                    # fn items used as values (e.g. passed to map): `const fn`
                    pl, cs = rv_sources(rv)
                    for c in cs:
                        if "fn" in c:
                            base = c["fn"].split("::<")[0]
                            if base in local:
                                self.edges[n].add(base)
                t = blk["term"]
                if t["k"] == "call":
                    if t["callee"]:
                        rb = t["callee"]["rbase"]
                        if rb in local:
                            self.edges[n].add(rb)
                            self.call_sites[rb].append((n, blk["id"]))
                        elif t["callee"]["base"] in local:
                            self.edges[n].add(t["callee"]["base"])
                            self.call_sites[t["callee"]["base"]].append((n, blk["id"]))
                        else:
                            self._dispatch(n, t)
                    for a in t["args"]:
                        if a["k"] == "const" and "fn" in a:
                            base = a["fn"].split("::<")[0]
                            if base in local:
                                self.edges[n].add(base)
                                self.call_sites[base].append((n, blk["id"]))
        # task roots and spawn boundary
        for n, b in facts.bodies.items():
            for bb, t in b.calls():
                base = t["callee"]["base"]
                how = "spawn" if base in TASK_SPAWN else "block_on" if base in TASK_BLOCK_ON else "spawn_blocking" if base in SPAWN_BLOCKING else None
                if how is None or not t["args"] or t["args"][0]["k"] == "const":
                    continue
                for kind, x, pb in b.prov.direct_producers(t["args"][0]["place"]["local"]):
                    tgt = None
                    if kind == "call" and x["callee"]:
                        tgt = x["callee"]["rbase"] or x["callee"]["base"]
                    elif kind == "agg":
                        tgt = x["rv"].get("coroutine") or x["rv"].get("closure")
                    if tgt in local:
                        self.spawn_roots[tgt].append((how, n, bb))
                        if how in ("spawn", "spawn_blocking"):
                            self.spawn_edges.add((n, tgt))

    def _dispatch(self, n, t):
        base = t["callee"]["base"]
        gargs = t["callee"]["gargs"]
        decl = t["callee"]["declared"]
        traits = _DISPATCH_TRAITS.get(base)
        if traits:
            for tr in traits:
                for (selfty, m) in self.impl_methods.get(tr, ()):
                    if any(selfty == g or selfty == g.lstrip("&") for g in gargs):
                        self.edges[n].add(m)
                        self.call_sites[m].append((n, None))
        # formatting: a local Display/Debug impl of a type named in the generic args of fmt machinery
        if "fmt::Arguments" in decl or "core::fmt::rt::Argument" in decl or "fmt::rt::Argument" in base:
            for tr in ("std::fmt::Display", "std::fmt::Debug"):
                for (selfty, m) in self.impl_methods.get(tr, ()):
                    if any(selfty == g.lstrip("&") for g in gargs):
                        self.edges[n].add(m)

    def reach(self, roots, cross_spawn=True, stop=()):
        seen = set(r for r in roots if r in self.f.bodies)
        st = list(seen)
        while st:
            x = st.pop()
            for y in self.edges.get(x, ()):
                if not cross_spawn and (x, y) in self.spawn_edges:
                    continue
                if y in stop:
                    continue
                if y not in seen:
                    seen.add(y)
                    st.append(y)
        return seen

    def path(self, root, target):
        """one call-graph path root -> target (for diagnostics)"""
        prev = {root: None}
        dq = collections.deque([root])
        while dq:
            x = dq.popleft()
            if x == target:
                out = []
                while x is not None:
                    out.append(x)
                    x = prev[x]
                return out[::-1]
            for y in self.edges.get(x, ()):
                if y not in prev:
                    prev[y] = x
                    dq.append(y)
        return None


def short(name):
    """readable label for a def path"""
    name = re.sub(r"\{closure#(\d+)\}", r"{c\1}", name)
    parts = name.split("::")
    return "::".join(parts[-4:]) if len(parts) > 4 else name
