"""Fact base: loading the zfacts JSON and the analysis primitives P1-P10 of DESIGN.md section 3.2.

Everything here works on resolved entities (def paths, ADT/variant/field names, resolved callees,
CFG edges) and never on source text."""
import json, os, os, collections, re, sys

sys.setrecursionlimit(20000)


class Edge:
    __slots__ = ("src", "dst", "idx", "label")

    def __init__(self, src, dst, idx, label):
        self.src, self.dst, self.idx, self.label = src, dst, idx, label

    def __repr__(self):
        return f"bb{self.src}->bb{self.dst}{'' if self.label is None else ' ' + str(self.label[:3])}"


def _short_adt(p):
    return p or ""


class Body:
    def __init__(self, j, facts):
        self.j = j
        self.facts = facts
        self.name = j["def"]
        k = j["kind"]
        self.kind = "Const" if k.startswith("Const") or k.startswith("AssocConst") else ("Static" if k.startswith("Static") else k)
        self.parent = j.get("parent") or None
        self.coroutine = j.get("coroutine") or None  # e.g. "Desugared(Async, Fn)" / "Desugared(Async, Block)"
        self.argc = j["argc"]
        self.locals = j["locals"]
        self.ret = j["ret"]
        self.file = j["span"]["file"]
        self.lo = j["span"]["lo"]
        self.hi = j["span"]["hi"]
        self.from_expansion = j["span"].get("exp", False)
        self.blocks = {b["id"]: b for b in j["blocks"]}
        self.edges = []
        self.succ = collections.defaultdict(list)  # block -> [Edge]
        self.pred = collections.defaultdict(list)
        for b in j["blocks"]:
            if b["cleanup"]:
                continue
            for (t, lab) in self._succ(b):
                if t in self.blocks and self.blocks[t]["cleanup"]:
                    continue
                e = Edge(b["id"], t, len(self.succ[b["id"]]), lab)
                self.edges.append(e)
                self.succ[b["id"]].append(e)
                self.pred[t].append(e)
        self._idom = None
        self._prov = None
        self._reach = {}
        self._rreach = {}

    # ---------------------------------------------------------------- P1: CFG
    def _succ(self, b):
        t = b["term"]
        k = t["k"]
        if k in ("goto", "drop", "assert"):
            return [(t["target"], None)]
        if k == "call":
            return [(t["target"], None)] if t["target"] >= 0 else []
        if k == "yield":
            return [(t["resume"], ("resume",))]
        if k == "switch":
            out = []
            d = t["discr"]
            dl = d["place"]["local"] if d["k"] in ("copy", "move") else None
            if "variants" in t:
                vmap = {str(v["val"]): v for v in t["variants"]}
                seen = set()
                on = t.get("on")
                for (v, tg) in t["targets"]:
                    vv = vmap.get(str(v))
                    nm = vv["name"] if vv else str(v)
                    seen.add(nm)
                    if b.get("inlined_poll_switch") and nm == "Pending":
                        continue
                    out.append((tg, ("variant", t.get("adt"), (nm,), on, tuple(vv["ftys"]) if vv else ())))
                rest = tuple(v["name"] for v in t["variants"] if v["name"] not in seen)
                if rest:
                    ftys = tuple(vmap[str(v["val"])]["ftys"][0] if vmap[str(v["val"])]["ftys"] else "" for v in t["variants"] if v["name"] in rest)
                    out.append((t["otherwise"], ("variant", t.get("adt"), rest, on, ftys if len(rest) == 1 else ())))
                # every variant has its own target: the `otherwise` edge cannot be taken (rustc often points it at a block shared with a real arm)
                return out
            if t.get("bool"):
                cv = d.get("val") if d["k"] == "const" else self._const_bool(dl)
                if cv in ("true", "false"):
                    # `if false { .. }` / `if true { .. }`: only one way out (the other block is dead code)
                    want = 1 if cv == "true" else 0
                    listed = {v: tg for (v, tg) in t["targets"]}
                    return [(listed.get(want, t["otherwise"]), None)]
                for (v, tg) in t["targets"]:
                    out.append((tg, ("bool", v != 0, dl)))
                # the otherwise edge of a bool switch is the value not listed
                listed = {v for (v, _) in t["targets"]}
                out.append((t["otherwise"], ("bool", (0 in listed), dl)))
                return out
            for (v, tg) in t["targets"]:
                out.append((tg, ("val", v, dl)))
            out.append((t["otherwise"], ("val-otherwise", tuple(v for v, _ in t["targets"]), dl)))
            return out
        return []

    def _const_bool(self, local):
        """'true'/'false' when the local is a compiler temporary assigned exactly once, from a literal (the scrutinee of `if false`), else None.
        Named variables are left alone: `let mut done = false; .. done = true` is state, not a literal condition."""
        if local is None:
            return None
        if not hasattr(self, "_cb"):
            self._cb = {}
            cnt = collections.Counter()
            for b in self.j["blocks"]:
                for st in b["stmts"]:
                    if not st["lhs"]["proj"]:
                        cnt[st["lhs"]["local"]] += 1
                        rv = st["rv"]
                        if rv["k"] == "use" and rv["op"]["k"] == "const" and rv["op"].get("val") in ("true", "false"):
                            self._cb[st["lhs"]["local"]] = rv["op"]["val"]
                        else:
                            self._cb.pop(st["lhs"]["local"], None)
                            cnt[st["lhs"]["local"]] += 1
                t = b["term"]
                if t["k"] == "call" and t.get("dest") and not t["dest"]["proj"]:
                    cnt[t["dest"]["local"]] += 2
            self._cb = {l: v for l, v in self._cb.items() if cnt[l] == 1 and not self.j["locals"][l].get("name")}
        return self._cb.get(local)

    def normal_blocks(self):
        return [b for b in self.j["blocks"] if not b["cleanup"]]

    def term(self, bb):
        return self.blocks[bb]["term"]

    def stmts(self, bb):
        return self.blocks[bb]["stmts"]

    def calls(self):
        """(block id, call terminator) for every call with a statically known callee, normal blocks only."""
        for b in self.j["blocks"]:
            if b["cleanup"]:
                continue
            t = b["term"]
            if t["k"] == "call" and t["callee"]:
                yield b["id"], t

    def line_of(self, bb):
        t = self.blocks[bb]["term"]
        if "line" in t:
            return t["line"]
        for st in self.blocks[bb]["stmts"]:
            return st.get("line")
        return self.lo

    def loc(self, bb=None, line=None):
        if line is None:
            line = self.line_of(bb) if bb is not None else self.lo
        f = self.blocks[bb].get("file", self.file) if bb is not None and bb in self.blocks else self.file
        return f"{f}:{line}"

    def origin(self, bb):
        """the body whose code block bb is (for blocks spliced in by a view)"""
        return self.blocks[bb].get("origin", self.name)

    def locate(self, origin_name, orig_bb):
        """block id, in this (view) body, of block `orig_bb` of body `origin_name`; None if that code is not part of this body"""
        if origin_name == self.name and "origin" not in self.blocks.get(orig_bb, {"origin": 1}):
            return orig_bb
        if not hasattr(self, "_loc"):
            self._loc = {}
            for b in self.j["blocks"]:
                if "origin" in b:
                    self._loc[(b["origin"], b.get("orig_id"))] = b["id"]
        return self._loc.get((origin_name, orig_bb))

    def locate_all(self, origin_name, orig_bb):
        """every copy, in this (view) body, of block `orig_bb` of body `origin_name` (a callee spliced in at several call sites has several)"""
        out = []
        if origin_name == self.name and "origin" not in self.blocks.get(orig_bb, {"origin": 1}):
            out.append(orig_bb)
        if not hasattr(self, "_loc_all"):
            self._loc_all = collections.defaultdict(list)
            for b in self.j["blocks"]:
                if "origin" in b:
                    self._loc_all[(b["origin"], b.get("orig_id"))].append(b["id"])
        return out + [x for x in self._loc_all.get((origin_name, orig_bb), ()) if x not in out]

    # ------------------------------------------------- P2: dominators (edge-split graph)
    def _build_dom(self):
        # nodes: ('b', id) and ('e', index into self.edges)
        succ = collections.defaultdict(list)
        for i, e in enumerate(self.edges):
            succ[("b", e.src)].append(("e", i))
            succ[("e", i)].append(("b", e.dst))
        entry = ("b", 0)
        # reverse postorder (iterative DFS)
        order = []
        seen = {entry}
        stack = [(entry, iter(succ[entry]))]
        while stack:
            n, it = stack[-1]
            adv = False
            for m in it:
                if m not in seen:
                    seen.add(m)
                    stack.append((m, iter(succ[m])))
                    adv = True
                    break
            if not adv:
                order.append(n)
                stack.pop()
        order.reverse()
        idx = {n: i for i, n in enumerate(order)}
        preds = collections.defaultdict(list)
        for n in order:
            for m in succ[n]:
                if m in idx:
                    preds[m].append(n)
        idom = {entry: entry}

        def intersect(a, b):
            while a != b:
                while idx[a] > idx[b]:
                    a = idom[a]
                while idx[b] > idx[a]:
                    b = idom[b]
            return a

        changed = True
        while changed:
            changed = False
            for n in order[1:]:
                ps = [p for p in preds[n] if p in idom]
                if not ps:
                    continue
                new = ps[0]
                for p in ps[1:]:
                    new = intersect(new, p)
                if idom.get(n) != new:
                    idom[n] = new
                    changed = True
        self._idom = idom
        # children lists for subtree queries
        ch = collections.defaultdict(list)
        for n, d in idom.items():
            if n != d:
                ch[d].append(n)
        self._domch = ch

    def _subtree_blocks(self, node):
        if self._idom is None:
            self._build_dom()
        out = set()
        st = [node]
        while st:
            n = st.pop()
            if n[0] == "b":
                out.add(n[1])
            st.extend(self._domch.get(n, ()))
        return out

    def dominated_by_edge(self, e):
        """blocks only reachable through edge e (e is an Edge of this body)"""
        i = self.edges.index(e)
        if self._idom is None:
            self._build_dom()
        if ("e", i) not in self._idom:
            return set()
        return self._subtree_blocks(("e", i))

    def dominated_by_block(self, bb):
        if self._idom is None:
            self._build_dom()
        if ("b", bb) not in self._idom:
            return set()
        return self._subtree_blocks(("b", bb))

    def dominates(self, a, b):
        """block a dominates block b"""
        if self._idom is None:
            self._build_dom()
        n = ("b", b)
        if n not in self._idom:
            return False
        while True:
            if n == ("b", a):
                return True
            d = self._idom[n]
            if d == n:
                return False
            n = d

    def region(self, pred, within=None):
        """P3/P4: blocks dominated by some edge whose (label, edge) satisfies pred; optionally the edge's source must lie in `within`."""
        out = set()
        for e in self.edges:
            if e.label is None:
                continue
            if within is not None and e.src not in within:
                continue
            if pred(e.label, e):
                out |= self.dominated_by_edge(e)
        return out

    def reachable_blocks(self):
        if not hasattr(self, "_live"):
            self._live = self.reach_from(0) | {0}
        return self._live

    def reach_from(self, bb, avoid=()):
        """blocks reachable from bb by >=1 normal edge (bb itself only if on a cycle)"""
        key = (bb, tuple(sorted(avoid)))
        if key in self._reach:
            return self._reach[key]
        seen = set()
        st = [bb]
        while st:
            x = st.pop()
            for e in self.succ.get(x, ()):
                if e.dst in avoid:
                    continue
                if e.dst not in seen:
                    seen.add(e.dst)
                    st.append(e.dst)
        self._reach[key] = seen
        return seen

    def reach_to(self, bb):
        if bb in self._rreach:
            return self._rreach[bb]
        seen = set()
        st = [bb]
        while st:
            x = st.pop()
            for e in self.pred.get(x, ()):
                if e.src not in seen:
                    seen.add(e.src)
                    st.append(e.src)
        self._rreach[bb] = seen
        return seen

    def return_blocks(self):
        return [b["id"] for b in self.normal_blocks() if b["term"]["k"] == "return"]

    # ------------------------------------------------- P10: natural loops
    def back_edges(self):
        return [e for e in self.edges if self.dominates(e.dst, e.src)]

    def natural_loops(self):
        """list of (header, set(blocks), [exit edges])"""
        loops = collections.defaultdict(set)
        for e in self.back_edges():
            body = {e.dst, e.src}
            st = [e.src]
            while st:
                x = st.pop()
                if x == e.dst:
                    continue
                for pe in self.pred.get(x, ()):
                    if pe.src not in body:
                        body.add(pe.src)
                        st.append(pe.src)
            loops[e.dst] |= body
        out = []
        for h, blks in loops.items():
            exits = [e for b in blks for e in self.succ.get(b, ()) if e.dst not in blks and self.blocks[e.dst]["term"]["k"] != "unreachable"]
            out.append((h, blks, exits))
        return out

    # ------------------------------------------------- P7: provenance
    @property
    def prov(self):
        if self._prov is None:
            self._prov = Prov(self)
        return self._prov

    def local_name(self, l):
        return self.locals[l].get("name")

    def local_ty(self, l):
        return self.locals[l]["ty"]

    def aggregates(self, adt_suffix=None, variant=None):
        """(block, stmt) for every aggregate construction of the ADT (suffix match on the path) / variant"""
        for b in self.normal_blocks():
            for st in b["stmts"]:
                rv = st["rv"]
                if rv["k"] == "agg" and "adt" in rv:
                    if adt_suffix is not None and not path_ends(rv["adt"], adt_suffix):
                        continue
                    if variant is not None and rv["variant"] != variant:
                        continue
                    yield b["id"], st


def path_ends(path, suffix):
    return path == suffix or path.endswith("::" + suffix)


def callee_base(t):
    c = t["callee"]
    return c["rbase"] or c["base"]


def callee_decl(t):
    return t["callee"]["declared"]


def operand_local(o):
    if o["k"] in ("copy", "move"):
        return o["place"]["local"]
    return None


def place_fields(p):
    return [pr["name"] for pr in p["proj"] if pr["k"] == "field"]


def rv_sources(rv):
    """(places read, constant operands)"""
    k = rv["k"]
    pl, cs = [], []

    def op(o):
        if o["k"] in ("copy", "move"):
            pl.append(o["place"])
        elif o["k"] == "const":
            cs.append(o)

    if k == "use":
        op(rv["op"])
    elif k in ("ref", "rawptr", "discr"):
        pl.append(rv["place"])
    elif k == "binop":
        op(rv["a"])
        op(rv["b"])
    elif k == "unop":
        op(rv["a"])
    elif k == "cast":
        op(rv["op"])
    elif k == "agg":
        for o in rv["ops"]:
            op(o)
    return pl, cs


_FACTS_FOR_CONSTS = []


def const_atoms(c):
    out = {("const", c["val"])}
    if "def" in c:
        out.add(("constdef", c["def"]))
        # a named constant stands for the aggregates its initialiser builds (e.g. `const KINDS: [ExecutionKind; 2] = [Build, Service]`)
        for f in _FACTS_FOR_CONSTS[-1:]:
            cb = f.bodies.get(c["def"])
            if cb is not None and cb.kind in ("Const", "Static"):
                for blk in cb.normal_blocks():
                    for st in blk["stmts"]:
                        rv = st["rv"]
                        if rv["k"] == "agg" and "adt" in rv:
                            out.add(("agg", rv["adt"], rv["variant"]))
    if "static" in c:
        out.add(("static", c["static"]))
    if "fn" in c:
        out.add(("fn", c["fn"]))
    return out


class Prov:
    """P7 derives-from, flow-insensitive inside a body; crosses local calls through return summaries.

    atoms: ('param', i) ('field', adt, name) ('variant', name) ('agg', adt, variant) ('const', val)
           ('constdef', path) ('static', path) ('fn', path) ('callres', callee base) ('closure', def) ('coroutine', def)
           ('tuple',) ('binop', op) ('unop', op) ('localname', name)
    """

    def __init__(self, body):
        self.b = body
        self.defs = collections.defaultdict(list)  # local -> [(kind, payload, block)]
        for blk in body.normal_blocks():
            for st in blk["stmts"]:
                self.defs[st["lhs"]["local"]].append(("assign", st, blk["id"]))
            t = blk["term"]
            if t["k"] == "call":
                self.defs[t["dest"]["local"]].append(("call", t, blk["id"]))
                # a call may write through its &mut arguments: those locals' referents derive from the other args
                for a in t["args"]:
                    l = operand_local(a)
                    if l is not None and body.locals[l]["ty"].startswith("&mut "):
                        self.defs[l].append(("mutarg", t, blk["id"]))
            elif t["k"] == "yield":
                pass
        self._memo = {}

    def _env_field_ops(self, p):
        """a read `env.<captured>` of a closure/coroutine environment that was built in this very body (a spliced-in async fn or closure):
        the operands the captured variable was built from (field-sensitive), else None"""
        projs = [pr for pr in p["proj"] if pr["k"] != "deref"]
        if not projs or projs[0]["k"] != "field":
            return None
        defs = self.defs.get(p["local"], ())
        envs = [d for d in defs if d[0] == "assign" and d[1]["rv"]["k"] == "agg" and ("coroutine" in d[1]["rv"] or "closure" in d[1]["rv"]) and d[1]["rv"].get("fields")]
        if not envs or len(envs) != len(defs):
            return None
        ops = []
        for d in envs:
            rv = d[1]["rv"]
            if projs[0]["name"] not in rv["fields"]:
                return None
            ops.append(rv["ops"][rv["fields"].index(projs[0]["name"])])
        return ops, projs[1:]

    def place_atoms(self, p, **kw):
        out = set()
        ef = self._env_field_ops(p)
        if ef is not None:
            ops, rest = ef
            for pr in rest:
                if pr["k"] == "field":
                    out.add(("field", pr["of"], pr["name"]))
                elif pr["k"] == "downcast":
                    out.add(("variant", pr["variant"]))
            for o in ops:
                out |= self.operand_atoms(o, **kw)
            return out
        for pr in p["proj"]:
            if pr["k"] == "field":
                out.add(("field", pr["of"], pr["name"]))
            elif pr["k"] == "downcast":
                out.add(("variant", pr["variant"]))
        return out | self.atoms(p["local"], **kw)

    def operand_atoms(self, o, **kw):
        if o["k"] in ("copy", "move"):
            return self.place_atoms(o["place"], **kw)
        if o["k"] == "const":
            return const_atoms(o)
        return set()

    def atoms(self, local, interproc=True):
        key = (local, interproc)
        if key in self._memo:
            return self._memo[key]
        out = set()
        seen = set()
        st = [local]
        while st:
            l = st.pop()
            if l in seen:
                continue
            seen.add(l)
            if 1 <= l <= self.b.argc:
                out.add(("param", l))
            nm = self.b.locals[l].get("name")
            if nm:
                out.add(("localname", nm))
            for kind, x, bb in self.defs.get(l, ()):
                if kind == "assign":
                    rv = x["rv"]
                    pl, cs = rv_sources(rv)
                    if rv["k"] == "agg":
                        if "adt" in rv:
                            out.add(("agg", rv["adt"], rv["variant"]))
                        elif "tuple" in rv:
                            out.add(("tuple",))
                        elif "closure" in rv:
                            out.add(("closure", rv["closure"]))
                            if interproc:
                                out |= self.b.facts.ret_atoms(rv["closure"])
                        elif "coroutine" in rv:
                            out.add(("coroutine", rv["coroutine"]))
                    elif rv["k"] == "binop":
                        out.add(("binop", rv["op"]))
                    elif rv["k"] == "unop":
                        out.add(("unop", rv["op"]))
                    elif rv["k"] == "discr":
                        out.add(("discr",))
                    for c in cs:
                        out |= const_atoms(c)
                    for p in pl:
                        ef = self._env_field_ops(p)
                        if ef is not None:
                            for pr in ef[1]:
                                if pr["k"] == "field":
                                    out.add(("field", pr["of"], pr["name"]))
                                elif pr["k"] == "downcast":
                                    out.add(("variant", pr["variant"]))
                            for o in ef[0]:
                                if o["k"] == "const":
                                    out |= const_atoms(o)
                                else:
                                    for pr in o["place"]["proj"]:
                                        if pr["k"] == "field":
                                            out.add(("field", pr["of"], pr["name"]))
                                        elif pr["k"] == "downcast":
                                            out.add(("variant", pr["variant"]))
                                    st.append(o["place"]["local"])
                            continue
                        for pr in p["proj"]:
                            if pr["k"] == "field":
                                out.add(("field", pr["of"], pr["name"]))
                            elif pr["k"] == "downcast":
                                out.add(("variant", pr["variant"]))
                            elif pr["k"] == "index":
                                st.append(pr["local"])
                        st.append(p["local"])
                else:
                    t = x
                    if t["callee"]:
                        cb = callee_base(t)
                        out.add(("callres", cb))
                        if interproc and t["callee"]["local"]:
                            out |= self.b.facts.ret_atoms(cb)
                    for a in t["args"]:
                        if a["k"] in ("copy", "move"):
                            ef = self._env_field_ops(a["place"])
                            if ef is not None:
                                for o in ef[0]:
                                    if o["k"] == "const":
                                        out |= const_atoms(o)
                                    else:
                                        st.append(o["place"]["local"])
                                        for pr in o["place"]["proj"]:
                                            if pr["k"] == "field":
                                                out.add(("field", pr["of"], pr["name"]))
                                a = {"k": "copy", "place": {"local": None, "proj": ef[1]}}
                            for pr in a["place"]["proj"]:
                                if pr["k"] == "field":
                                    out.add(("field", pr["of"], pr["name"]))
                                elif pr["k"] == "downcast":
                                    out.add(("variant", pr["variant"]))
                            if a["place"]["local"] is not None:
                                st.append(a["place"]["local"])
                        elif a["k"] == "const":
                            out |= const_atoms(a)
                    fo = t.get("func")
                    if fo and fo["k"] in ("copy", "move"):
                        st.append(fo["place"]["local"])
        self._memo[key] = out
        self._memo[("seen",) + key] = seen
        return out

    def source_locals(self, local, interproc=True):
        """the locals visited while deriving `local` (everything it is computed from, inside this body)"""
        self.atoms(local, interproc=interproc)
        return self._memo.get(("seen", local, interproc), {local})

    def atoms_with_contents(self, o, **kw):
        """operand atoms plus what was put into the collections the operand derives from: `v.push(x)` / `m.insert(k, x)` / `v.extend(xs)` on a local that
        `o` is computed from contribute the atoms of x (a flow the plain derivation does not follow: the call writes through its `&mut` receiver)"""
        out = set(self.operand_atoms(o, **kw))
        l = o["place"]["local"] if o["k"] in ("copy", "move") else None
        if l is None:
            return out
        srcs = self.source_locals(l, kw.get("interproc", True))
        for blk in self.b.normal_blocks():
            t = blk["term"]
            if t["k"] != "call" or not t["callee"] or len(t["args"]) < 2:
                continue
            if not re.search(r"::(push|push_back|push_front|insert|extend|extend_from_slice|append)(::<.*>)?$", t["callee"]["base"]):
                continue
            r0 = t["args"][0]
            if r0["k"] not in ("copy", "move"):
                continue
            tgt = {r0["place"]["local"]}
            for kind, st, bb in self.defs.get(r0["place"]["local"], ()):
                if kind == "assign" and st["rv"]["k"] == "ref":
                    tgt.add(st["rv"]["place"]["local"])
            if tgt & set(srcs):
                for a in t["args"][1:]:
                    out |= self.operand_atoms(a, **kw)
        return out

    # direct producer: follow whole-local moves/copies back to the producing call or aggregate
    def direct_producers(self, local):
        out = []
        seen = set()
        st = [local]
        while st:
            l = st.pop()
            if l in seen:
                continue
            seen.add(l)
            for kind, x, bb in self.defs.get(l, ()):
                if kind == "call":
                    out.append(("call", x, bb))
                elif kind == "assign":
                    rv = x["rv"]
                    if rv["k"] == "agg":
                        out.append(("agg", x, bb))
                    elif rv["k"] == "use" and rv["op"]["k"] in ("copy", "move") and not rv["op"]["place"]["proj"]:
                        st.append(rv["op"]["place"]["local"])
                    elif rv["k"] == "use" and rv["op"]["k"] == "const":
                        out.append(("const", x, bb))
                    elif rv["k"] == "ref" and not rv["place"]["proj"]:
                        st.append(rv["place"]["local"])
                    elif rv["k"] == "cast" and rv["op"]["k"] in ("copy", "move") and not rv["op"]["place"]["proj"]:
                        st.append(rv["op"]["place"]["local"])
                    else:
                        out.append(("expr", x, bb))
        return out

    def uses_of(self, local):
        """(kind, payload, block) for every read of the local (whole or projected)"""
        out = []
        for blk in self.b.normal_blocks():
            for st in blk["stmts"]:
                pl, _ = rv_sources(st["rv"])
                if any(p["local"] == local for p in pl):
                    out.append(("assign", st, blk["id"]))
            t = blk["term"]
            if t["k"] == "call":
                if any(operand_local(a) == local for a in t["args"]):
                    out.append(("call", t, blk["id"]))
            elif t["k"] == "switch" and operand_local(t["discr"]) == local:
                out.append(("switch", t, blk["id"]))
            elif t["k"] == "yield" and operand_local(t["value"]) == local:
                out.append(("yield", t, blk["id"]))
        return out

    def flows_forward(self, local, limit=200):
        """locals that (transitively) receive the value of `local` by move/copy/ref/cast/aggregate/call-through"""
        seen = {local}
        st = [local]
        while st and len(seen) < limit:
            l = st.pop()
            for kind, x, bb in self.uses_of(l):
                if kind == "assign":
                    d = x["lhs"]["local"]
                elif kind == "call":
                    d = x["dest"]["local"]
                else:
                    continue
                if d not in seen:
                    seen.add(d)
                    st.append(d)
        return seen


def canonicalise_helper_fields(d):
    """The rules speak of the actor-state struct through four field names (`to_execute`, `executed`, `requesters`, `unavailable_dependencies`).
    The struct and its fields are recognised by what they are - the struct holding a map kind -> set of actor ids and a map kind -> set of target ids;
    the two flags by their initial values in the constructor (the run flag starts true, the done flag false) - and renamed to those canonical
    names in the facts, so that renaming the fields in the source does not lose any anchor. Returns the mapping applied (source name -> canonical)."""
    RQ = r"HashMap<[\w:]*ExecutionKind, std::collections::HashSet<[\w:]*ActorId>>$"
    PD = r"HashMap<[\w:]*ExecutionKind, std::collections::HashSet<[\w:]*TargetId>>$"
    helper = None
    for a in d["adts"]:
        if a["enum"] or not a["variants"]:
            continue
        tys = [fd["ty"] for fd in a["variants"][0]["fields"]]
        if any(re.search(RQ, t) for t in tys) and any(re.search(PD, t) for t in tys):
            helper = a
            break
    if helper is None:
        return {}
    path = helper["path"]
    mapping = {}
    bools = []
    for fd in helper["variants"][0]["fields"]:
        if re.search(RQ, fd["ty"]):
            mapping[fd["name"]] = "requesters"
        elif re.search(PD, fd["ty"]):
            mapping[fd["name"]] = "unavailable_dependencies"
        elif fd["ty"] == "bool":
            bools.append(fd["name"])
    if len(bools) == 2:
        init = {}
        for bj in d["bodies"]:
            for blk in bj["blocks"]:
                for st in blk["stmts"]:
                    rv = st["rv"]
                    if rv["k"] == "agg" and rv.get("adt") == path and rv.get("fields"):
                        for nm, o in zip(rv["fields"], rv["ops"]):
                            if nm in bools and o["k"] == "const":
                                init.setdefault(nm, set()).add(o.get("val"))
        t = [n for n in bools if init.get(n) == {"true"}]
        fl = [n for n in bools if init.get(n) == {"false"}]
        if len(t) == 1 and len(fl) == 1:
            mapping[t[0]] = "to_execute"
            mapping[fl[0]] = "executed"
    mapping = {k: v for k, v in mapping.items() if k != v}
    if not mapping or set(mapping.values()) & ({fd["name"] for fd in helper["variants"][0]["fields"]} - set(mapping)):
        return {}

    def walk(x):
        if isinstance(x, dict):
            if x.get("k") == "field" and x.get("of") == path and x.get("name") in mapping:
                x["name"] = mapping[x["name"]]
            if x.get("k") == "agg" and x.get("adt") == path and x.get("fields"):
                x["fields"] = [mapping.get(n, n) for n in x["fields"]]
            for v in x.values():
                walk(v)
        elif isinstance(x, list):
            for v in x:
                walk(v)
    walk(d["bodies"])
    for a in d["adts"]:
        if a["path"] == path:
            for fd in a["variants"][0]["fields"]:
                fd["name"] = mapping.get(fd["name"], fd["name"])
    return mapping


def redirect_into_calls(d):
    """`x.into()` / `T::try_from(x)` written through the blanket impls of core (`impl<T, U: From<T>> Into<U> for T`) resolve to core's generic body, which is not part
    of the crate: the call is retargeted to the crate's own `impl From<T> for U` it ends up in, so that the conversion is seen (and spliced) like any local call."""
    names = {b["def"] for b in d["bodies"]}
    n = 0
    for b in d["bodies"]:
        for blk in b["blocks"]:
            t = blk["term"]
            if t["k"] != "call" or not t.get("callee") or t["callee"].get("local"):
                continue
            m = re.match(r"<(.+) as std::convert::(Into|TryInto)<(.+)>>::(into|try_into)$", t["callee"].get("declared") or "")
            if not m:
                continue
            src, _, dst, _ = m.groups()
            tr, fn = ("From", "from") if m.group(2) == "Into" else ("TryFrom", "try_from")
            cand = f"<{dst} as std::convert::{tr}<{src}>>::{fn}"
            if cand in names:
                t["callee"].update({"base": cand, "rbase": cand, "resolved": cand, "local": True, "via_blanket_impl": t["callee"]["declared"]})
                n += 1
    return n


def resolve_named_consts(d):
    """A use of a crate-local named constant whose initialiser is a plain literal (`const NAME_PATTERN: &str = "..."`, `const WATCH: &str = "watch"`)
    is the use of that literal: the operand keeps its `def` (the rules that speak of a constant by its role still find it) and gets the literal as `val`.
    Returns the number of operands rewritten."""
    import vocabulary
    lit = {}
    for b in d["bodies"]:
        if b["kind"].startswith("Const") and "{" not in b["def"] and "<" not in b["def"]:
            v = vocabulary._const_value(b)
            if v is not None and v != b["def"]:
                lit[b["def"]] = (v, b.get("ret"))
    n = 0

    def walk(x):
        nonlocal n
        if isinstance(x, dict):
            if x.get("k") == "const" and x.get("def") in lit and x.get("val") == x.get("def"):
                x["val"] = lit[x["def"]][0]
                n += 1
            for v in x.values():
                walk(v)
        elif isinstance(x, list):
            for v in x:
                walk(v)
    if lit:
        for b in d["bodies"]:
            walk(b["blocks"])
    return n


class Facts:
    def __init__(self, path):
        d = json.load(open(path))
        import vocabulary
        try:
            self.renamed_vocabulary = vocabulary.align(d) if os.environ.get("ZV_NO_VOCAB") != "1" else {}
        except Exception as e:   # never let the convenience layer break the analysis: without it the rules fail closed on renamed items
            self.renamed_vocabulary = {"error": f"{type(e).__name__}: {e}"}
        self.renamed_fields = canonicalise_helper_fields(d)
        redirect_into_calls(d)
        resolve_named_consts(d)
        self.meta = {k: d[k] for k in ("crate", "nonce", "rustc", "test_harness", "debug_assertions", "missing_bodies") if k in d}
        self.adt_list = d["adts"]  # several derive-generated ADTs can share one path (serde's `__Field` per enum variant)
        self.adts = {}
        for a in d["adts"]:
            self.adts.setdefault(a["path"], a)
        self.impls = d["impls"]
        self.bodies = {}
        self.duplicate_names = 0
        for bj in d["bodies"]:
            b = Body(bj, self)
            if b.name in self.bodies:
                # derive-generated items of different enum variants can share one printed path: keep them all, disambiguated
                k = 2
                while f"{b.name}#{k}" in self.bodies:
                    k += 1
                b.name = f"{b.name}#{k}"
                self.duplicate_names += 1
            self.bodies[b.name] = b
        self._ret = {}
        self._ret_inprogress = set()
        self._cg = None
        _FACTS_FOR_CONSTS.clear()
        _FACTS_FOR_CONSTS.append(self)
        self.derived_prefixes = tuple(f"<{i['self']} as {i['trait']}" for i in self.impls if i["derived"])

    # bodies that are code (not const/static initialisers)
    def code_bodies(self):
        return [b for b in self.bodies.values() if b.kind not in ("Const", "Static")]

    def is_derived(self, body):
        """body belongs to an `#[automatically_derived]` impl (derive(Clone, PartialEq, Serialize, ...))"""
        n = body.name
        return n.startswith("<") and any(n.startswith(p + ">::") or n.startswith(p + "<") for p in self.derived_prefixes) or "::_::<impl" in n or n.startswith("_::")

    def user_bodies(self):
        """code bodies written by the user (not derive-generated)"""
        return [b for b in self.code_bodies() if not self.is_derived(b)]

    def body(self, name):
        return self.bodies.get(name)

    def find(self, suffix):
        return [b for n, b in self.bodies.items() if path_ends(n, suffix)]

    def coroutine_of(self, fn_name):
        """the async body of an `async fn` (its {closure#0})"""
        b = self.bodies.get(fn_name + "::{closure#0}")
        return b if b is not None and "Fn" in str(b.coroutine) else None  # `Desugared(Async, Fn)`; an async *block* inside a sync fn is not its body

    def ret_atoms(self, name):
        """atoms the return value of a local body derives from (minus its own params), following into the coroutine of async fns"""
        if name in self._ret:
            return self._ret[name]
        if name in self._ret_inprogress:
            return set()
        b = self.bodies.get(name)
        if b is None:
            return set()
        self._ret_inprogress.add(name)
        at = set(b.prov.atoms(0))
        extra = set()
        for a in at:
            if a[0] in ("coroutine", "closure") and a[1] in self.bodies and a[0] == "coroutine":
                extra |= self.ret_atoms(a[1])
        at |= extra
        at = {a for a in at if a[0] not in ("param", "localname")}
        self._ret_inprogress.discard(name)
        self._ret[name] = at
        return at

    def const_value(self, path_suffix):
        """value string of a const/static item whose initialiser is a plain constant"""
        for b in self.bodies.values():
            if b.kind in ("Const", "Static") and path_ends(b.name, path_suffix):
                for blk in b.normal_blocks():
                    for st in blk["stmts"]:
                        if st["lhs"]["local"] == 0 and st["rv"]["k"] == "use" and st["rv"]["op"]["k"] == "const":
                            return st["rv"]["op"]["val"]
        return None

    # ------------------------------------------------- views (single-call-site callees spliced in)
    def view(self, name_or_body):
        name = name_or_body if isinstance(name_or_body, str) else name_or_body.name
        if not hasattr(self, "_vb"):
            self._vb = ViewBuilder(self)
            self._views = {}
        if name not in self._views:
            j = self._vb.view_json(name)
            if j is self._vb.raw.get(name) or len(j["blocks"]) == len(self.bodies[name].j["blocks"]):
                self._views[name] = self.bodies[name]
            else:
                v = Body(j, self)
                v.is_view = True
                self._views[name] = v
        return self._views[name]

    # ------------------------------------------------- P9: call graph
    @property
    def cg(self):
        if self._cg is None:
            self._cg = CallGraph(self)
        return self._cg


TASK_SPAWN = ("async_std::task::spawn", "async_std::task::spawn_local", "async_std::task::Builder::spawn")
TASK_BLOCK_ON = ("async_std::task::block_on",)
SPAWN_BLOCKING = ("async_std::task::spawn_blocking",)

# bounded dispatch through external generic callees into local trait impls
_DISPATCH_TRAITS = {
    "std::convert::Into::into": ["std::convert::From"],
    "core::convert::Into::into": ["std::convert::From"],
    "std::string::ToString::to_string": ["std::fmt::Display"],
    "alloc::string::ToString::to_string": ["std::fmt::Display"],
}


class CallGraph:
    def __init__(self, facts):
        self.f = facts
        self.edges = collections.defaultdict(set)       # caller -> callee body names (calls, constructs, poll)
        self.call_sites = collections.defaultdict(list)  # callee -> [(caller body, block)]
        self.spawn_roots = collections.defaultdict(list)  # body name -> [(how, in body, block)]
        self.spawn_edges = set()                          # (caller, callee) pairs that are task-creation, not membership
        local = set(facts.bodies)
        impl_methods = collections.defaultdict(list)      # trait path -> [(self ty, body name)]
        for n in local:
            m = re.match(r"^<(.+) as (.+?)>::(\w+)$", n)
            if m:
                impl_methods[m.group(2).split("<")[0]].append((m.group(1), n))
        self.impl_methods = impl_methods
        for n, b in facts.bodies.items():
            for blk in b.normal_blocks():
                for st in blk["stmts"]:
                    rv = st["rv"]
                    if rv["k"] == "agg":
                        for key in ("closure", "coroutine"):
                            if key in rv and rv[key] in local:
                                self.edges[n].add(rv[key])
                                self.call_sites[rv[key]].append((n, blk["id"]))
                    # fn items used as values (e.g. passed to map): `const fn`
                    pl, cs = rv_sources(rv)
                    for c in cs:
                        if "fn" in c:
                            base = c["fn"].split("::<")[0]
                            if base in local:
                                self.edges[n].add(base)
                t = blk["term"]
                if t["k"] == "call":
                    if t["callee"]:
                        rb = t["callee"]["rbase"]
                        if rb in local:
                            self.edges[n].add(rb)
                            self.call_sites[rb].append((n, blk["id"]))
                        elif t["callee"]["base"] in local:
                            self.edges[n].add(t["callee"]["base"])
                            self.call_sites[t["callee"]["base"]].append((n, blk["id"]))
                        else:
                            self._dispatch(n, t)
                    for a in t["args"]:
                        if a["k"] == "const" and "fn" in a:
                            base = a["fn"].split("::<")[0]
                            if base in local:
                                self.edges[n].add(base)
                                self.call_sites[base].append((n, blk["id"]))
        # task roots and spawn boundary
        wrappers = {}
        for n, b in facts.bodies.items():
            for bb, t in b.calls():
                base = t["callee"]["base"]
                how = "spawn" if base in TASK_SPAWN else "block_on" if base in TASK_BLOCK_ON else "spawn_blocking" if base in SPAWN_BLOCKING else None
                fi = 1 if base.endswith("Builder::spawn") else 0   # `Builder::spawn(self, future)`
                if how is None or len(t["args"]) <= fi or t["args"][fi]["k"] == "const":
                    continue
                fl_ = t["args"][fi]["place"]["local"]
                if 1 <= fl_ <= b.argc and how == "spawn":
                    wrappers[n] = fl_      # `fn spawn_named(fut: F) { task::spawn(fut) }`
                for kind, x, pb in b.prov.direct_producers(fl_):
                    tgt = None
                    if kind == "call" and x["callee"]:
                        tgt = x["callee"]["rbase"] or x["callee"]["base"]
                    elif kind == "agg":
                        tgt = x["rv"].get("coroutine") or x["rv"].get("closure")
                        # an async block that merely wraps a future handed to the enclosing function (`async move { fut.await }`)
                        if how == "spawn" and x["rv"].get("coroutine"):
                            for o in x["rv"]["ops"]:
                                ol = o["place"]["local"] if o["k"] in ("copy", "move") and not o["place"]["proj"] else None
                                if ol is not None and 1 <= ol <= b.argc:
                                    ty_ = b.locals[ol]["ty"]
                                    # a future-typed parameter: a bare type parameter (`F`), `impl Future`, or a boxed / pinned future
                                    if re.match(r"^[A-Z]\w*$", ty_) or "Future" in ty_:
                                        wrappers[n] = ol
                    if tgt in local:
                        self.spawn_roots[tgt].append((how, n, bb))
                        if how in ("spawn", "spawn_blocking"):
                            self.spawn_edges.add((n, tgt))
        # spawn wrappers: a future passed to a local function that spawns it is spawned at that call
        for w, pi in wrappers.items():
            for (cn, cbb) in self.call_sites.get(w, ()):
                if cbb is None:
                    continue
                cb_ = facts.bodies[cn]
                ct = cb_.term(cbb)
                if ct["k"] != "call" or pi - 1 >= len(ct["args"]) or ct["args"][pi - 1]["k"] == "const":
                    continue
                for kind, x, pb in cb_.prov.direct_producers(ct["args"][pi - 1]["place"]["local"]):
                    tgt = None
                    if kind == "call" and x["callee"]:
                        tgt = x["callee"]["rbase"] or x["callee"]["base"]
                    elif kind == "agg":
                        tgt = x["rv"].get("coroutine") or x["rv"].get("closure")
                    if tgt in local:
                        self.spawn_roots[tgt].append(("spawn", cn, cbb))
                        self.spawn_edges.add((cn, tgt))

    def _dispatch(self, n, t):
        base = t["callee"]["base"]
        gargs = t["callee"]["gargs"]
        decl = t["callee"]["declared"]
        traits = _DISPATCH_TRAITS.get(base)
        if traits:
            for tr in traits:
                for (selfty, m) in self.impl_methods.get(tr, ()):
                    if any(selfty == g or selfty == g.lstrip("&") for g in gargs):
                        self.edges[n].add(m)
                        self.call_sites[m].append((n, None))
        # formatting: a local Display/Debug impl of a type named in the generic args of fmt machinery
        if "fmt::Arguments" in decl or "core::fmt::rt::Argument" in decl or "fmt::rt::Argument" in base:
            for tr in ("std::fmt::Display", "std::fmt::Debug"):
                for (selfty, m) in self.impl_methods.get(tr, ()):
                    if any(selfty == g.lstrip("&") for g in gargs):
                        self.edges[n].add(m)

    def reach(self, roots, cross_spawn=True, stop=()):
        seen = set(r for r in roots if r in self.f.bodies)
        st = list(seen)
        while st:
            x = st.pop()
            for y in self.edges.get(x, ()):
                if not cross_spawn and (x, y) in self.spawn_edges:
                    continue
                if y in stop:
                    continue
                if y not in seen:
                    seen.add(y)
                    st.append(y)
        return seen

    def path(self, root, target):
        """one call-graph path root -> target (for diagnostics)"""
        prev = {root: None}
        dq = collections.deque([root])
        while dq:
            x = dq.popleft()
            if x == target:
                out = []
                while x is not None:
                    out.append(x)
                    x = prev[x]
                return out[::-1]
            for y in self.edges.get(x, ()):
                if y not in prev:
                    prev[y] = x
                    dq.append(y)
        return None


def short(name):
    """readable label for a def path"""
    name = re.sub(r"\{closure#(\d+)\}", r"{c\1}", name)
    parts = name.split("::")
    return "::".join(parts[-4:]) if len(parts) > 4 else name


# ======================================================================================================================
# Views: a body with its single-call-site local callees spliced in (DESIGN.md section 12).
#
# A helper that is called from exactly one place is, semantically, a named block of its caller. `Facts.view(name)` returns a Body whose
# CFG contains, after every such call, the callee's own (view) CFG: the call terminator is kept (so "calls f" rules still see it) and
# retargeted to a copy of the callee's entry; the callee's returns assign the call's destination and continue at the call's original
# target. For a directly awaited `async fn` the coroutine body is spliced in at the poll site, its environment bound to the arguments of
# the creating call. Views are supersets of the raw body: nothing is removed, so every rule that holds on the raw body's own blocks is
# unaffected, while dominance/region/path rules see through helper extraction.
import copy


def _ren_place(p, lo, bo):
    q = dict(p)
    q["local"] = p["local"] + lo
    pr2 = []
    for pr in p["proj"]:
        if pr["k"] == "index":
            pr = dict(pr)
            pr["local"] = pr["local"] + lo
        pr2.append(pr)
    q["proj"] = pr2
    return q


def _ren_op(o, lo, bo):
    if o["k"] in ("copy", "move"):
        q = dict(o)
        q["place"] = _ren_place(o["place"], lo, bo)
        return q
    return o


def _ren_rv(rv, lo, bo):
    k = rv["k"]
    q = dict(rv)
    if k == "use":
        q["op"] = _ren_op(rv["op"], lo, bo)
    elif k in ("ref", "rawptr", "discr"):
        q["place"] = _ren_place(rv["place"], lo, bo)
    elif k == "binop":
        q["a"] = _ren_op(rv["a"], lo, bo)
        q["b"] = _ren_op(rv["b"], lo, bo)
    elif k == "unop":
        q["a"] = _ren_op(rv["a"], lo, bo)
    elif k == "cast":
        q["op"] = _ren_op(rv["op"], lo, bo)
    elif k == "agg":
        q["ops"] = [_ren_op(o, lo, bo) for o in rv["ops"]]
    return q


def _ren_term(t, lo, bo):
    q = dict(t)
    k = t["k"]
    if k in ("goto", "drop", "assert"):
        q["target"] = t["target"] + bo
        if k == "drop":
            q["place"] = _ren_place(t["place"], lo, bo)
        if k == "assert":
            q["cond"] = _ren_op(t["cond"], lo, bo)
    elif k == "call":
        q["target"] = t["target"] + bo if t["target"] >= 0 else -1
        if "orig_target" in t:
            q["orig_target"] = t["orig_target"] + bo if t["orig_target"] >= 0 else -1
        q["args"] = [_ren_op(a, lo, bo) for a in t["args"]]
        q["dest"] = _ren_place(t["dest"], lo, bo)
        q["func"] = _ren_op(t["func"], lo, bo)
    elif k == "yield":
        q["resume"] = t["resume"] + bo
        q["drop"] = t["drop"] + bo if t["drop"] >= 0 else -1
        q["value"] = _ren_op(t["value"], lo, bo)
    elif k == "switch":
        q["discr"] = _ren_op(t["discr"], lo, bo)
        q["targets"] = [[v, tg + bo] for (v, tg) in t["targets"]]
        q["otherwise"] = t["otherwise"] + bo
        if "on" in t:
            q["on"] = _ren_place(t["on"], lo, bo)
    return q


def _copy_blocks(cj, lo, bo, origin_name, origin_file):
    out = []
    for b in cj["blocks"]:
        nb = {"id": b["id"] + bo, "cleanup": b["cleanup"], "stmts": [], "origin": b.get("origin", origin_name), "file": b.get("file", origin_file), "orig_id": b.get("orig_id", b["id"])}
        if b.get("inlined_poll_switch"):
            nb["inlined_poll_switch"] = True
        for st in b["stmts"]:
            ns = {"lhs": _ren_place(st["lhs"], lo, bo), "rv": _ren_rv(st["rv"], lo, bo), "line": st.get("line")}
            if st.get("ret_of"):
                ns["ret_of"] = [st["ret_of"][0], st["ret_of"][1] + bo]
            nb["stmts"].append(ns)
        nb["term"] = _ren_term(b["term"], lo, bo)
        out.append(nb)
    return out


MAX_SITES = int(os.environ.get("ZV_MSI_SITES", "16"))          # a local fn with up to this many call sites is spliced into each caller
MAX_MULTI_BLOCKS = int(os.environ.get("ZV_MSI_BLOCKS", "400"))  # ... when it is called more than once, only if it is at most this big (raw blocks)


class ViewBuilder:
    def __init__(self, facts):
        self.f = facts
        self.raw = {n: b.j for n, b in facts.bodies.items()}
        self.memo = {}
        self.in_progress = set()
        self.inlined_into = {}   # callee fn name -> caller body name (for the callee's own code)
        self._sites = None

    def call_sites(self):
        """local fn name -> [(caller body name, block id)] over user bodies, and the set of fns whose address is taken"""
        if self._sites is not None:
            return self._sites
        sites = collections.defaultdict(list)
        taken = set()
        for n, b in self.f.bodies.items():
            if self.f.is_derived(b):
                continue
            for blk in b.j["blocks"]:
                if blk["cleanup"]:
                    continue
                for st in blk["stmts"]:
                    pl, cs = rv_sources(st["rv"])
                    for c in cs:
                        if "fn" in c:
                            taken.add(c["fn"].split("::<")[0])
                t = blk["term"]
                if t["k"] == "call":
                    if t["callee"]:
                        cn = t["callee"]["rbase"] or t["callee"]["base"]
                        if cn in self.raw:
                            sites[cn].append((n, blk["id"]))
                    for a in t["args"]:
                        if a["k"] == "const" and "fn" in a:
                            taken.add(a["fn"].split("::<")[0])
        self._sites = (sites, taken)
        return self._sites

    def inlinable(self, callee, caller):
        sites, taken = self.call_sites()
        b = self.f.bodies.get(callee)
        if b is None or b.kind not in ("Fn", "AssocFn") or callee in taken or self.f.is_derived(b):
            return False
        nsites = len(sites.get(callee, ()))
        if nsites < 1 or nsites > MAX_SITES:
            return False
        if nsites > 1 and len(self.raw[callee]["blocks"]) + len(self.raw.get(callee + "::{closure#0}", {"blocks": []})["blocks"]) > MAX_MULTI_BLOCKS:
            return False
        if callee == caller or callee in self.in_progress:
            return False
        # not recursive (directly or through its async body)
        if callee in self.f.cg.reach([callee]) - {callee} and callee in self.f.cg.edges.get(callee, ()):
            return False
        return True

    def view_json(self, name):
        if name in self.memo:
            return self.memo[name]
        if name in self.in_progress:
            return self.raw[name]
        self.in_progress.add(name)
        j = copy.deepcopy(self.raw[name])
        body = self.f.bodies[name]
        from idioms import awaits  # local import: idioms imports facts
        aw_by_call = {}
        for a in awaits(body):
            if a.producer and a.poll_call_bb is not None:
                aw_by_call[a.producer[0]] = a
        nblocks0 = len(j["blocks"])
        for blk in list(j["blocks"][:nblocks0]):
            if blk["cleanup"]:
                continue
            t = blk["term"]
            if t["k"] != "call" or not t["callee"]:
                continue
            cn = t["callee"]["rbase"] or t["callee"]["base"]
            if cn not in self.raw or not self.inlinable(cn, name):
                continue
            co_name = cn + "::{closure#0}"
            is_async = co_name in self.raw and "Fn" in str(self.f.bodies[co_name].coroutine)
            if is_async:
                a = aw_by_call.get(blk["id"])
                if a is None:
                    continue  # the future is not awaited here (spawned, fused, passed on): stays a call
                self._splice_async(j, blk, a, cn, co_name)
            else:
                if self.f.bodies[cn].ret.startswith("impl ") and "Future" in self.f.bodies[cn].ret:
                    continue
                self._splice_sync(j, blk, cn)
            self.inlined_into[cn] = name
        self.in_progress.discard(name)
        self.memo[name] = j
        return j

    def _append(self, j, cj, origin_name):
        lo = len(j["locals"])
        bo = len(j["blocks"])
        j["locals"] = j["locals"] + [dict(l) for l in cj["locals"]]
        j["blocks"] = j["blocks"] + _copy_blocks(cj, lo, bo, origin_name, cj["span"]["file"])
        return lo, bo

    def _splice_sync(self, j, blk, cn):
        cj = self.view_json(cn)
        t = blk["term"]
        lo, bo = self._append(j, cj, cn)
        line = t.get("line")
        # bind parameters
        pre = {"id": len(j["blocks"]), "cleanup": False, "stmts": [], "origin": cn, "file": cj["span"]["file"]}
        for i, a in enumerate(t["args"]):
            if i + 1 <= cj["argc"]:
                pre["stmts"].append({"lhs": {"local": i + 1 + lo, "proj": [], "ty": cj["locals"][i + 1]["ty"]}, "rv": {"k": "use", "op": a}, "line": line})
        pre["term"] = {"k": "goto", "target": bo}
        j["blocks"].append(pre)
        ret_target = t["target"]
        for nb in j["blocks"][bo:bo + len(cj["blocks"])]:
            if nb["term"]["k"] == "return":
                nb["stmts"].append({"lhs": t["dest"], "rv": {"k": "use", "op": {"k": "move", "place": {"local": lo, "proj": [], "ty": cj["locals"][0]["ty"]}}}, "line": line,
                                    "ret_of": [cn, blk["id"]]})
                nb["term"] = {"k": "goto", "target": ret_target} if ret_target >= 0 else {"k": "unreachable"}
        t["orig_target"] = t["target"]
        t["target"] = pre["id"]
        t["inlined"] = cn

    def _splice_async(self, j, blk, a, cn, co_name):
        cj = self.view_json(co_name)
        create = blk["term"]
        pblk = j["blocks"][a.poll_call_bb]
        pt = pblk["term"]
        if pt["k"] != "call" or pt.get("inlined"):
            return
        lo, bo = self._append(j, cj, co_name)
        line = create.get("line")
        names = self.f.bodies[cn].j["locals"]
        upvars = cj.get("upvars") or []
        pre = {"id": len(j["blocks"]), "cleanup": False, "stmts": [], "origin": co_name, "file": cj["span"]["file"]}
        # environment: the coroutine object built from the creating call's arguments (async fn bodies capture their parameters in order)
        fields = [l.get("name") or f"arg{i}" for i, l in enumerate(names[1:1 + len(create["args"])])]
        pre["stmts"].append({"lhs": {"local": 1 + lo, "proj": [], "ty": cj["locals"][1]["ty"]},
                             "rv": {"k": "agg", "coroutine": co_name, "fields": fields, "ops": list(create["args"])}, "line": line})
        if cj["argc"] >= 2 and len(j["locals"]) > 2:
            pre["stmts"].append({"lhs": {"local": 2 + lo, "proj": [], "ty": cj["locals"][2]["ty"]}, "rv": {"k": "use", "op": {"k": "copy", "place": {"local": 2, "proj": [], "ty": j["locals"][2]["ty"]}}}, "line": line})
        pre["term"] = {"k": "goto", "target": bo}
        j["blocks"].append(pre)
        ret_target = pt["target"]
        for nb in j["blocks"][bo:bo + len(cj["blocks"])]:
            if nb["term"]["k"] == "return":
                nb["stmts"].append({"lhs": pt["dest"], "rv": {"k": "agg", "adt": "std::task::Poll", "variant": "Ready", "fields": ["0"],
                                                              "ops": [{"k": "move", "place": {"local": lo, "proj": [], "ty": cj["locals"][0]["ty"]}}]}, "line": line})
                nb["term"] = {"k": "goto", "target": ret_target} if ret_target >= 0 else {"k": "unreachable"}
        pt["orig_target"] = pt["target"]
        pt["target"] = pre["id"]
        pt["inlined"] = co_name
        # the spliced-in body runs to completion: the poll switch that follows can only take its Ready edge
        if ret_target >= 0 and j["blocks"][ret_target]["term"]["k"] == "switch":
            j["blocks"][ret_target]["inlined_poll_switch"] = True
        create["inlined_async"] = cn
