#!/usr/bin/env python3
"""usage: tools/mutant_to_variant.py <mutant id> <variant name> "<description>" <prop>=<key prefix> [<prop>=<key prefix> ...] [--also P,Q] [--control RULE]
Turns a mutant of the systematic sweep (/tmp/zv-mut/mutants.jsonl) into a seeded variant (variants/<name>.json) with enough context for a unique anchor."""
import sys, os, json
VERIF = os.path.dirname(os.path.dirname(os.path.abspath(__file__)))
mid, name, desc = sys.argv[1], sys.argv[2], sys.argv[3]
rest = sys.argv[4:]
also, control = [], []
if "--also" in rest:
    i = rest.index("--also"); also = rest[i + 1].split(","); del rest[i:i + 2]
if "--control" in rest:
    i = rest.index("--control"); control = rest[i + 1].split(","); del rest[i:i + 2]
expect = {}
for a in rest:
    p, k = a.split("=", 1)
    expect.setdefault(p, []).append(k)
m = next(json.loads(l) for l in open("/tmp/zv-mut/mutants.jsonl") if json.loads(l)["id"] == mid)
src = open(os.path.join("/repo", m["file"])).read()
lines = src.split("\n")
i = m["line"] - 1
assert lines[i] == m["old"]
lo, hi = i, i + (2 if "old2" in m else 1)
while src.count("\n".join(lines[lo:hi])) != 1:
    if lo > 0:
        lo -= 1
    if src.count("\n".join(lines[lo:hi])) == 1:
        break
    hi += 1
old = "\n".join(lines[lo:hi])
newl = list(lines[lo:hi])
newl[i - lo] = m["new"]
if "old2" in m:
    newl[i - lo + 1] = m["new2"]
new = "\n".join(x for x in newl) if m["new"] != "" or "old2" in m else "\n".join(x for k, x in enumerate(newl) if k != i - lo)
v = {"desc": desc + f" (systematic mutant {mid}: {m['op']} at {m['file']}:{m['line']})", "kind": "breaking", "edits": [{"file": m["file"], "old": old, "new": new}], "expect": expect}
if also:
    v["also_ok"] = also
if control:
    v["control_for"] = control
json.dump(v, open(os.path.join(VERIF, "variants", name + ".json"), "w"), indent=1)
print("wrote variants/%s.json" % name)
