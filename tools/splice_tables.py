#!/usr/bin/env python3
"""Rewrites the two generated tables of DESIGN.md (10.4 rules, 10.5 variants) in place from tools/gen_tables.py."""
import os, re, subprocess, sys
VERIF = os.path.dirname(os.path.dirname(os.path.abspath(__file__)))
out = subprocess.run([sys.executable, os.path.join(VERIF, "tools", "gen_tables.py")], stdout=subprocess.PIPE, text=True, check=True).stdout
rules_tbl, var_tbl = out.strip().split("\n\n")
p = os.path.join(VERIF, "DESIGN.md")
lines = open(p).read().split("\n")
def replace_table(lines, header_prefix, new):
    i = next(k for k, l in enumerate(lines) if l.startswith(header_prefix))
    j = next(k for k in range(i, len(lines)) if lines[k].startswith("| "))
    e = j
    while e < len(lines) and lines[e].startswith("|"):
        e += 1
    return lines[:j] + new.split("\n") + lines[e:]
lines = replace_table(lines, "### 10.4 ", rules_tbl)
lines = replace_table(lines, "### 10.5 ", var_tbl)
open(p, "w").write("\n".join(lines))
print("DESIGN.md tables:", rules_tbl.count("\n") - 1, "rules,", var_tbl.count("\n") - 1, "variants")
