#!/bin/bash
# runs every property's check (quick by default) in parallel and prints a summary; usage: tools/run_all.sh [quick|thorough] [jobs]
cd "$(dirname "$0")/.."
TIER="${1:-quick}"; JOBS="${2:-8}"
mkdir -p .cache/runall
seq -f "C%02g" 1 20 | xargs -P "$JOBS" -I{} sh -c "./check {} --tier $TIER > .cache/runall/{}.out 2>&1; echo \"{} exit \$?\""
echo ---; tail -qn 1 .cache/runall/*.out
grep -h "VIOLATION\|KNOWN-FINDING\|ANALYSIS-ERROR" .cache/runall/*.out | head -40
