#!/usr/bin/env python3
"""usage: tools/run_benign.py [name-substr ...] -- applies every behaviour-preserving refactoring in /verif/benign/*.diff to a scratch copy of /repo and
lists the rules that (wrongly) fire. Exit 0 if none fires."""
import sys, os, glob, subprocess, shutil
VERIF = os.path.dirname(os.path.dirname(os.path.abspath(__file__)))
sys.path.insert(0, os.path.join(VERIF, "rules"))
import selfcheck


def extract(repo, out, crate="zinoma", extra=()):
    p = subprocess.run([os.path.join(VERIF, "tools", "extract.sh"), repo, out, crate] + list(extra), stdout=subprocess.PIPE, stderr=subprocess.PIPE, text=True)
    return p.returncode == 0


pats = [a for a in sys.argv[1:] if not a.startswith("-")]
total = 0
for diff in sorted(glob.glob(os.path.join(VERIF, "benign", "*.diff"))):
    nm = os.path.basename(diff)[:-5]
    if pats and not any(p in nm for p in pats):
        continue
    d, dst = selfcheck.scratch_copy("/repo")
    try:
        p = subprocess.run(["patch", "-p1", "-s", "-d", dst, "-i", diff], stdout=subprocess.PIPE, stderr=subprocess.STDOUT, text=True)
        if p.returncode != 0:
            print(nm, "PATCH-FAILED")
            continue
        fp = os.path.join(d, "facts.json")
        if not extract(dst, fp):
            print(nm, "DOES-NOT-COMPILE")
            continue
        rep = selfcheck.analyse(fp)
        keys = sorted({k for p_ in rep.values() for k in p_})
        total += len(keys)
        print(f"{nm:8s} {len(keys):3d} false alarm key(s)  props={sorted(rep)}")
        if "-v" in sys.argv:
            for k in keys:
                f = next(v[k] for v in rep.values() if k in v)
                print("      ", k, "--", f[:150])
    finally:
        shutil.rmtree(d, ignore_errors=True)
print("total false-alarm keys:", total)
sys.exit(1 if total else 0)
