#!/usr/bin/env python3
"""usage: tools/try_diff.py <patch.diff> [more.diff ...]  -- applies each diff to a scratch copy of the current /repo, analyses it with every rule
and prints the violated keys per property (the scratch copy is removed). Exit 0 always; this is a development aid."""
import sys, os, subprocess, shutil, json
VERIF = os.path.dirname(os.path.dirname(os.path.abspath(__file__)))
sys.path.insert(0, os.path.join(VERIF, "rules"))
import selfcheck


def extract(repo, out, crate="zinoma", extra=()):
    p = subprocess.run([os.path.join(VERIF, "tools", "extract.sh"), repo, out, crate] + list(extra), stdout=subprocess.PIPE, stderr=subprocess.PIPE, text=True)
    if p.returncode != 0:
        print(p.stderr[-2000:])
    return p.returncode == 0


for diff in sys.argv[1:]:
    d, dst = selfcheck.scratch_copy("/repo")
    try:
        p = subprocess.run(["patch", "-p1", "-s", "-d", dst, "-i", os.path.abspath(diff)], stdout=subprocess.PIPE, stderr=subprocess.STDOUT, text=True)
        if p.returncode != 0:
            print(diff, "PATCH FAILED", p.stdout[-500:])
            continue
        fp = os.path.join(d, "facts.json")
        if not extract(dst, fp):
            print(diff, "DOES NOT COMPILE")
            continue
        rep = selfcheck.analyse(fp)
        print("==", diff)
        if not rep:
            print("   (no rule fired)")
        for prop in sorted(rep):
            for k, found in sorted(rep[prop].items()):
                print(f"   {prop}  {k}  -- {found[:160]}")
    finally:
        shutil.rmtree(d, ignore_errors=True)
