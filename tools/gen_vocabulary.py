#!/usr/bin/env python3
"""usage: tools/gen_vocabulary.py [facts.json]  -- (re)generates rules/vocabulary.json, the reference vocabulary (source-level ADTs with their variants and
fields, plain constants) the rules are written against, from a fact dump of the reference tree (default: extract /repo now). Run it only on a tree on
which every check passes: it defines what the names in the rules mean."""
import sys, os, json, subprocess, tempfile
VERIF = os.path.dirname(os.path.dirname(os.path.abspath(__file__)))
sys.path.insert(0, os.path.join(VERIF, "rules"))
import vocabulary
if len(sys.argv) > 1:
    fp = sys.argv[1]
else:
    fp = os.path.join(tempfile.mkdtemp(prefix="zv-vocab-"), "facts.json")
    subprocess.run([os.path.join(VERIF, "tools", "extract.sh"), "/repo", fp], check=True, stdout=subprocess.DEVNULL, stderr=subprocess.DEVNULL)
v = vocabulary.build_vocab(json.load(open(fp)))
json.dump(v, open(vocabulary.VOCAB_PATH, "w"), indent=1, sort_keys=True)
print(f"{len(v['adts'])} ADTs, {len(v['consts'])} constants -> {vocabulary.VOCAB_PATH}")
