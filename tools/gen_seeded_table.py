#!/usr/bin/env python3
"""Prints the markdown table 'independent mutant -> which checks report it' (DESIGN.md 13.1) from the cached self-validation reports
(run tools/run_suite.py seeded twins first)."""
import os, sys, glob, json, re
VERIF = os.path.dirname(os.path.dirname(os.path.abspath(__file__)))
sys.path.insert(0, os.path.join(VERIF, "rules")); sys.path.insert(0, os.path.join(VERIF, "tools"))
import selfcheck
from run_suite import extract
known = {}
kp = os.path.join(VERIF, "twins_known.txt")
if os.path.exists(kp):
    for l in open(kp):
        if l.strip() and not l.startswith("#"):
            known[l.split()[0]] = l.split("--", 1)[1].strip() if "--" in l else ""
print("| mutant | aimed at | what it does (heading of the author's note) | reported by its own property through | other properties reporting it | benign twin |")
print("|---|---|---|---|---|---|")
for d in sorted(glob.glob(os.path.join(VERIF, "seeded", "*"))):
    nm = os.path.basename(d)
    meta = json.load(open(os.path.join(d, "meta.json")))
    prop = meta["breaks_property"]
    pp = os.path.join(d, "patch.diff")
    r = selfcheck.cached_report("seeded", nm, open(pp, "rb").read(), "/repo", extract, selfcheck.apply_patch(pp))
    rep = r["reported"]
    own = sorted({k.split("/")[1] for k in rep.get(prop, {})})
    others = sorted(p for p in rep if p != prop)
    n = int(nm.split("-m")[1])
    rd = meta.get("readme_excerpt", "")
    on = n if n <= 2 else n - 2
    if n >= 7:  # round 4: filed under the next free number of the property; the author's own number is in the confirmation command
        on = int(re.search(r"confirm_mutant\.sh \S+ (\d+)", meta.get("confirm_cmd", "")).group(1))
    hdr = re.search(r"(?im)^#+\s*(?:mutant\s*)?m?%d\b\s*[-:–—]*\s*([^\n]*)" % on, rd)
    note = re.sub(r"^breaks C\d+ - ", "", ((hdr.group(1) if hdr else "").strip().strip("`")).replace("|", "/"))[:120]
    twin = ""
    tp = os.path.join(d, "benign_twin.diff")
    if os.path.exists(tp):
        tr = selfcheck.cached_report("twins", nm, open(tp, "rb").read(), "/repo", extract, selfcheck.apply_patch(tp))
        twin = "silent" if not tr["reported"] else ("alarms (known, see twins_known.txt)" if nm in known else "ALARMS")
    print(f"| `{nm}` | {prop} | {note} | {', '.join(own) or '**not reported**'} | {', '.join(others)} | {twin} |")
