#!/bin/bash
# usage: extract.sh <crate-dir> <out.json> [crate-name] [extra cargo args...]
# Runs the zfacts driver over the crate in <crate-dir> (bin target) with the real build's flags and
# writes the fact file. Serialised with flock (the cargo target dir is shared).
set -u
VERIF="$(cd "$(dirname "$0")/.." && pwd)"
DIR="$(cd "$1" && pwd)"; OUT="$2"; CRATE="${3:-zinoma}"; shift; shift; [ $# -gt 0 ] && shift
case "$OUT" in /*) ;; *) OUT="$PWD/$OUT";; esac
mkdir -p "$(dirname "$OUT")"
CACHE="$VERIF/.cache"; TGT="${ZF_TARGET_DIR:-$CACHE/target}"
DRV="$VERIF/extractor/target/release/zfacts"
if [ -n "${ZF_TARGET_DIR:-}" ]; then LOCK="$TGT.lock"; else LOCK="$CACHE/lock"; fi
[ -x "$DRV" ] || { echo "ANALYSIS-ERROR: extractor not built (run setup)" >&2; exit 2; }
mkdir -p "$CACHE" "$TGT"
SYSROOT="$(rustc +nightly --print sysroot)"
NONCE="$$-$RANDOM-$(date +%s%N)"
rm -f "$OUT"
LOG="$OUT.log"
(
  flock 9
  rm -rf "$TGT"/debug/.fingerprint/"$CRATE"-* "$TGT"/release/.fingerprint/"$CRATE"-*
  cd "$DIR" && ZF_OUT="$OUT" ZF_CRATE="${CRATE//-/_}" ZF_NONCE="$NONCE" LD_LIBRARY_PATH="$SYSROOT/lib" CARGO_INCREMENTAL=0 \
    RUSTC_WRAPPER="$VERIF/tools/rustc_shim.sh" RUSTC_WORKSPACE_WRAPPER="$DRV" CARGO_NET_OFFLINE=true \
    RUSTFLAGS="-Awarnings" CARGO_TARGET_DIR="$TGT" cargo +nightly check --offline --bins "$@" >"$LOG" 2>&1
) 9>"$LOCK"
RC=$?
if [ $RC -ne 0 ] || [ ! -s "$OUT" ]; then
  echo "ANALYSIS-ERROR: extraction failed (cargo exit $RC); log follows" >&2; tail -40 "$LOG" >&2; exit 2
fi
grep -q "\"nonce\":\"$NONCE\"" "$OUT" || { echo "ANALYSIS-ERROR: stale fact file" >&2; exit 2; }
if grep -q ZF-MISSING "$LOG"; then echo "ANALYSIS-ERROR: bodies missing from capture" >&2; grep ZF-MISSING "$LOG" >&2; exit 2; fi
rm -f "$LOG"
exit 0
