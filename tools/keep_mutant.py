#!/usr/bin/env python3
"""usage: keep_mutant.py <prop> <n> "<confirm line>"  -- files sub-agent mutant m<n> of /tmp/wt-<prop> under /verif/seeded/<prop>-m<n>/ with what the checks report on it."""
import sys, os, json, shutil, subprocess, re
VERIF = os.path.dirname(os.path.dirname(os.path.abspath(__file__)))
prop, n, confirm = sys.argv[1], sys.argv[2], sys.argv[3]
# optional: worktree and the number under which the mutant is filed (round 2: /tmp/wt2-<prop>, m1 -> m3, m2 -> m4)
wt = sys.argv[4] if len(sys.argv) > 4 else f"/tmp/wt-{prop}"
as_n = sys.argv[5] if len(sys.argv) > 5 else n
dst = os.path.join(VERIF, "seeded", f"{prop}-m{as_n}")
os.makedirs(dst, exist_ok=True)
shutil.copy(f"{wt}/mutants/m{n}.diff", os.path.join(dst, "patch.diff"))
shutil.copy(f"{wt}/mutants/m{n}_demo.sh", os.path.join(dst, "demo.sh"))
readme = open(f"{wt}/mutants/README.md").read()
out = subprocess.run([os.path.join(VERIF, "tools", "try_diff.py"), os.path.join(dst, "patch.diff")], stdout=subprocess.PIPE, text=True).stdout
reported = {}
for line in out.splitlines():
    m = re.match(r"\s+(C\d+)\s+(\S+)\s+-- (.*)", line)
    if m:
        reported.setdefault(m.group(1), []).append(m.group(2))
meta = {"breaks_property": prop, "source": "independent sub-agent given only the property text and its own scratch worktree" + (" (round 2: defect disguised as a refactoring)" if len(sys.argv) > 4 else ""),
        "needs_to_manifest": "see readme_excerpt", "readme_excerpt": readme[:6000],
        "confirmed_by_me": confirm, "confirm_cmd": f"tools/confirm_mutant.sh {wt} {n}  (apply to clean tree, cargo build --offline, cargo test --workspace --offline, demo on mutant, demo on clean)",
        "checks_reporting_it": reported, "caught_by_target_property_check": prop in reported,
        "analysis_cmd": "tools/try_diff.py seeded/%s-m%s/patch.diff" % (prop, as_n)}
json.dump(meta, open(os.path.join(dst, "meta.json"), "w"), indent=1)
print(prop, n, "caught-by-own-check" if prop in reported else "NOT caught by own check", sorted(reported))
