#!/usr/bin/env python3
"""Systematic syntactic mutation sweep of /repo's non-test source (development aid; DESIGN.md section 13).

  tools/mutate.py gen                    -> /tmp/zv-mut/mutants.jsonl (deterministic list)
  tools/mutate.py analyse [workers]      -> /tmp/zv-mut/analysed.jsonl: for every mutant, does it compile (driver) and which properties fire
  tools/mutate.py test [workers]         -> /tmp/zv-mut/tested.jsonl: for every compiling mutant no rule flagged, does the pinned suite kill it
Survivors (compile, suite passes, no rule fires) are the candidates to triage by hand: equivalent / irrelevant to the 20 properties / a miss.
Everything lives under /tmp/zv-mut and is scratch; nothing registered in MANIFEST.json depends on it."""
import os, sys, re, json, shutil, subprocess, tempfile, hashlib
from multiprocessing import Pool
VERIF = os.path.dirname(os.path.dirname(os.path.abspath(__file__)))
sys.path.insert(0, os.path.join(VERIF, "rules"))
REPO = "/repo"
OUT = "/tmp/zv-mut"

SWAPS = [
    ("and-or", r"&&", "||"), ("or-and", r"\|\|", "&&"),
    ("eq-ne", r"==", "!="), ("ne-eq", r"!=", "=="),
    ("true-false", r"\btrue\b", "false"), ("false-true", r"\bfalse\b", "true"),
    ("drop-not", r"(?<![\w\)])!(?=[\w\(])(?!\()", ""),
    ("kind-b2s", r"ExecutionKind::Build\b", "ExecutionKind::Service"), ("kind-s2b", r"ExecutionKind::Service\b", "ExecutionKind::Build"),
    ("continue-break", r"\bcontinue\b", "break"), ("break-continue", r"\bbreak\b(?!\s*')", "continue"),
    ("try-ok", r"\?;\s*$", ".ok();"),
    ("lt-le", r"(?<![<\-=])<(?![<=\w:])\s", "<= "), ("gt-ge", r"(?<![>\-=])\s>(?![>=])\s", " >= "),
    ("is_empty-neg", r"(\b[\w\.\[\]&\(\)]+?)\.is_empty\(\)", r"!\1.is_empty()"),
    ("some-none", r"\bSome\(([^()]*)\)(?=[,;\s\)])", "None"),
    ("ok-unit-err", r"\.is_ok\(\)", ".is_err()"), ("err-ok", r"\.is_err\(\)", ".is_ok()"),
    ("is_some-none", r"\.is_some\(\)", ".is_none()"), ("is_none-some", r"\.is_none\(\)", ".is_some()"),
    ("all-any", r"\.all\(", ".any("), ("any-all", r"\.any\(", ".all("),
    ("and_then-skip", r"\.filter\(", ".filter(|_| true).map(|x| x).filter("),
]
SWAPS = [s for s in SWAPS if s[0] != "and_then-skip"]
# third batch (ids P....): a type-correct but wrong value
SWAPS3 = [
    ("flag-te2ex", r"\bto_execute\b", "executed"), ("flag-ex2te", r"\bexecuted\b", "to_execute"),
    ("io-in2out", r"\b(target_)?input\b", r"\1output"), ("io-out2in", r"\b(target_)?output\b", r"\1input"),
    ("res-completed2skipped", r"IncrementalRunResult::Completed\b", "IncrementalRunResult::Skipped"), ("res-skipped2completed", r"IncrementalRunResult::Skipped\b", "IncrementalRunResult::Completed"),
    ("one-zero", r"== 1\b", "== 0"), ("one-two", r"== 1\b", "== 2"),
    ("swap-args", r"\((&?[a-z_][\w\.]*), (&?[a-z_][\w\.]*)\)", r"(\2, \1)"),
    ("insert-remove", r"\.insert\(", ".remove(&"), ("remove-insert", r"\.remove\(&", ".insert("),
    ("files-cmds", r"\.files\b", ".cmds"), ("unwrap_or-true", r"unwrap_or\(false\)", "unwrap_or(true)"),
    ("is_file-is_dir", r"\.is_file\(\)", ".is_dir()"), ("is_dir-is_file", r"\.is_dir\(\)", ".is_file()"),
    ("starts-ends", r"\.starts_with\(", ".ends_with("), ("ends-starts", r"\.ends_with\(", ".starts_with("),
    ("actual-flip", r"actual: true", "actual: false"), ("actual-flip2", r"actual: false", "actual: true"),
]


def source_files():
    out = []
    for root, _, fs in os.walk(os.path.join(REPO, "src")):
        for f in fs:
            if f.endswith(".rs"):
                out.append(os.path.relpath(os.path.join(root, f), REPO))
    return sorted(out)


def code_lines(text):
    """(index, line) of lines before the first #[cfg(test)], outside comments / doc comments / attribute lines"""
    out = []
    for i, l in enumerate(text.split("\n")):
        if l.strip().startswith("#[cfg(test)]"):
            break
        st = l.strip()
        if not st or st.startswith("//") or st.startswith("#[") or st.startswith("#!["):
            continue
        out.append((i, l))
    return out


def strip_strings(l):
    """mask string literal contents so that operators inside strings/format strings are not mutated"""
    return re.sub(r'"(?:[^"\\]|\\.)*"', lambda m: '"' + "\x00" * (len(m.group(0)) - 2) + '"', l)


def gen():
    os.makedirs(OUT, exist_ok=True)
    muts = []
    for f in source_files():
        text = open(os.path.join(REPO, f)).read()
        lines = text.split("\n")
        for i, l in code_lines(text):
            masked = strip_strings(l)
            code = masked.split("//")[0]
            for (op, pat, rep) in SWAPS + SWAPS3:
                for k, m in enumerate(re.finditer(pat, code)):
                    new = l[:m.start()] + m.expand(rep) + l[m.end():] if "\\" in rep else l[:m.start()] + rep + l[m.end():]
                    if new != l:
                        muts.append({"file": f, "line": i + 1, "op": op, "k": k, "old": l, "new": new})
            st = code.strip()
            # statement deletion: single-line expression statements (calls / awaits / sends / assignments), not declarations
            if st.endswith(";") and not re.match(r"^(let|use|pub|mod|return|type|const|static|fn|struct|enum|impl|break|continue)\b", st) and st.count("(") == st.count(")") and st.count("{") == st.count("}"):
                prev = lines[i - 1].strip() if i else ""
                if not prev.endswith("=") and not prev.endswith(",") and not prev.endswith("(") and not prev.endswith("."):
                    muts.append({"file": f, "line": i + 1, "op": "del-stmt", "k": 0, "old": l, "new": re.match(r"\s*", l).group(0) + "();" if False else ""})
            # conjunct / disjunct dropping: `a && b` -> `a` | `b` (single-line conditions only)
            mcond = re.match(r"^(\s*(?:\}\s*else\s+)?(?:if|while)\s+)(.*?)(\s*\{\s*)$", code)
            if mcond and "let " not in mcond.group(2):
                cond = mcond.group(2)
                for opx in ("&&", "||"):
                    parts = cond.split(f" {opx} ")
                    if len(parts) == 2 and parts[0].count("(") == parts[0].count(")"):
                        muts.append({"file": f, "line": i + 1, "op": "drop-right", "k": 0, "old": l, "new": mcond.group(1) + parts[0] + mcond.group(3)})
                        muts.append({"file": f, "line": i + 1, "op": "drop-left", "k": 0, "old": l, "new": mcond.group(1) + parts[1] + mcond.group(3)})
                if mcond.group(1).strip().endswith("if"):
                    muts.append({"file": f, "line": i + 1, "op": "if-true", "k": 0, "old": l, "new": mcond.group(1) + "true" + mcond.group(3)})
                    muts.append({"file": f, "line": i + 1, "op": "if-false", "k": 0, "old": l, "new": mcond.group(1) + "false" + mcond.group(3)})
            # swapping two adjacent single-line statements of the same block
            if i + 1 < len(lines):
                nxt = strip_strings(lines[i + 1]).split("//")[0]
                def simple(x):
                    y = x.strip()
                    return y.endswith(";") and y.count("(") == y.count(")") and y.count("{") == y.count("}") and not re.match(r"^(use|pub|mod|return|type|const|static|fn|struct|enum|impl|break|continue)\b", y)
                if simple(code) and simple(nxt) and re.match(r"\s*", l).group(0) == re.match(r"\s*", lines[i + 1]).group(0) and l.strip() != lines[i + 1].strip():
                    muts.append({"file": f, "line": i + 1, "op": "swap-stmt", "k": 0, "old": l, "new": lines[i + 1], "old2": lines[i + 1], "new2": l})
            # early-return / continue removal on their own line
            if re.match(r"^(return|continue|break)\b.*;$", st) and "return Err" not in st and st in ("return;", "continue;", "break;"):
                muts.append({"file": f, "line": i + 1, "op": "del-jump", "k": 0, "old": l, "new": ""})
    NEW_OPS = ("drop-right", "drop-left", "if-true", "if-false", "swap-stmt")
    OPS3 = {x[0] for x in SWAPS3}
    olds = [m for m in muts if m["op"] not in NEW_OPS and m["op"] not in OPS3]
    news = [m for m in muts if m["op"] in NEW_OPS]
    third = [m for m in muts if m["op"] in OPS3]
    for n, m in enumerate(olds):
        m["id"] = "M%04d" % n
    for n, m in enumerate(news):
        m["id"] = "N%04d" % n
    for n, m in enumerate(third):
        m["id"] = "P%04d" % n
    muts = olds + news + third
    with open(os.path.join(OUT, "mutants.jsonl"), "w") as fh:
        for m in muts:
            fh.write(json.dumps(m) + "\n")
    from collections import Counter
    print(len(muts), "mutants", dict(Counter(m["op"] for m in muts)))


def load(name):
    p = os.path.join(OUT, name)
    return [json.loads(l) for l in open(p)] if os.path.exists(p) else []


def apply_mut(dst, m):
    p = os.path.join(dst, m["file"])
    lines = open(p).read().split("\n")
    assert lines[m["line"] - 1] == m["old"], (m["id"], "source moved")
    lines[m["line"] - 1] = m["new"]
    if "old2" in m:
        assert lines[m["line"]] == m["old2"], (m["id"], "source moved")
        lines[m["line"]] = m["new2"]
    open(p, "w").write("\n".join(lines))


def worker_id():
    import multiprocessing
    ident = multiprocessing.current_process()._identity
    return ident[0] if ident else 0


def analyse_one(m):
    import selfcheck
    w = worker_id()
    tgt = os.path.join(OUT, f"tgt-{w}")
    if not os.path.exists(tgt):
        shutil.copytree(os.path.join(VERIF, ".cache", "target"), tgt, symlinks=True)
    d, dst = selfcheck.scratch_copy(REPO)
    try:
        apply_mut(dst, m)
        fp = os.path.join(d, "facts.json")
        env = dict(os.environ, ZF_TARGET_DIR=tgt)
        p = subprocess.run([os.path.join(VERIF, "tools", "extract.sh"), dst, fp, "zinoma"], stdout=subprocess.PIPE, stderr=subprocess.PIPE, text=True, env=env)
        if p.returncode != 0:
            return dict(m, status="nocompile")
        try:
            rep = selfcheck.analyse(fp)
        except Exception as e:
            return dict(m, status="rule-error", detail=f"{type(e).__name__}: {e}")
        return dict(m, status="flagged" if rep else "silent", reported={p_: sorted(k) for p_, k in rep.items()})
    finally:
        shutil.rmtree(d, ignore_errors=True)


def test_one(m):
    import selfcheck
    w = worker_id()
    tgt = os.path.join(OUT, f"ttgt-{w}")
    d, dst = selfcheck.scratch_copy(REPO)
    try:
        apply_mut(dst, m)
        env = dict(os.environ, CARGO_TARGET_DIR=tgt, CARGO_NET_OFFLINE="true", RUSTFLAGS="-Awarnings")
        try:
            p = subprocess.run(["timeout", "-s", "KILL", "600", "cargo", "test", "--workspace", "--no-fail-fast", "--offline"], cwd=dst, stdout=subprocess.PIPE, stderr=subprocess.STDOUT, text=True, env=env)
        except Exception as e:
            return dict(m, suite="error", detail=str(e))
        ok = p.returncode == 0
        fails = re.findall(r"^test (\S+) \.\.\. FAILED", p.stdout, re.M)
        return dict(m, suite="pass" if ok else "killed", failed=fails[:6])
    finally:
        shutil.rmtree(d, ignore_errors=True)


def run_stage(fn, todo, outname, workers):
    done = {m["id"] for m in load(outname)}
    todo = [m for m in todo if m["id"] not in done]
    print(len(todo), "to do,", len(done), "done already")
    with Pool(workers) as pool, open(os.path.join(OUT, outname), "a") as fh:
        for n, r in enumerate(pool.imap_unordered(fn, todo)):
            fh.write(json.dumps(r) + "\n")
            fh.flush()
            if n % 25 == 0:
                print(n, r["id"], r.get("status") or r.get("suite"), flush=True)


if __name__ == "__main__":
    cmd = sys.argv[1]
    workers = int(sys.argv[2]) if len(sys.argv) > 2 and sys.argv[2].isdigit() else 6
    if cmd == "gen":
        gen()
    elif cmd == "analyse":
        run_stage(analyse_one, load("mutants.jsonl"), "analysed.jsonl", workers)
    elif cmd == "test":
        run_stage(test_one, [m for m in load("analysed.jsonl") if m["status"] == "silent"], "tested.jsonl", workers)
    elif cmd == "summary":
        from collections import Counter
        a = load("analysed.jsonl"); t = {m["id"]: m for m in load("tested.jsonl")}
        print("analysed", Counter(m["status"] for m in a))
        print("tested", Counter(m["suite"] for m in t.values()))
        for m in a:
            if m["status"] == "silent" and t.get(m["id"], {}).get("suite") == "pass":
                print(m["id"], m["file"], m["line"], m["op"], "|", m["old"].strip()[:110])


def recheck(ids):
    """re-analyse the listed mutants with the current rules and print what fires"""
    ms = {m["id"]: m for m in load("mutants.jsonl")}
    with Pool(5) as pool:
        for r in pool.imap_unordered(analyse_one, [ms[i] for i in ids]):
            print(r["id"], r["file"], r["line"], r["op"], r["status"], {p: [k[:70] for k in ks][:2] for p, ks in (r.get("reported") or {}).items()})


if __name__ == "__main__" and sys.argv[1] == "recheck":
    recheck(sys.argv[2:])
