#!/usr/bin/env python3
"""Rename-robustness sweep: every identifier *defined* in /repo/src (fn, struct, enum, const, static, field, variant, local `let`) is renamed consistently
across the crate (word-boundary substitution on a scratch copy); a rename that still compiles is behaviour-preserving, so every rule that fires on it is a
false alarm of the machinery - i.e. a name the rules rely on. Prints one line per rename and a summary of the names relied upon.

usage: tools/rename_sweep.py [-j N] [--kinds fn,struct,enum,const,field,variant,local] [--combo K [--ncombos M]] [name-substr ...]
(development aid; the scratch copies are removed; reports are cached in .cache/selfval like every other corpus)"""
import sys, os, re, json, glob, hashlib
VERIF = os.path.dirname(os.path.dirname(os.path.abspath(__file__)))
sys.path.insert(0, os.path.join(VERIF, "rules"))
import selfcheck

REPO = "/repo"
SRC = os.path.join(REPO, "src")
# names whose textual substitution would also hit std / external-crate items (the rename would not compile, or would not be the same program)
STOP = set("""new from into run next fmt default drop clone eq ne hash try_from from_str deserialize serialize main len is_empty get insert extend remove send recv iter
current kind name dir cmd path paths input output files cmds key all both watch build service id map filter any find push pop contains description source cause
context error result value values keys entry take read write open create exists join parent display to_string as_str as_ref start stop kill status spawn
Ok Err Some None Self self super crate Result Option String Vec Box Path PathBuf Error Config Target""".split())


def definitions():
    out = {}
    for p in sorted(glob.glob(os.path.join(SRC, "**", "*.rs"), recursive=True)):
        rel = os.path.relpath(p, REPO)
        if rel.endswith("schema.rs"):
            continue  # serde field names are the YAML keys: renaming them changes behaviour
        s = open(p).read()
        s_notest = s.split("#[cfg(test)]")[0]
        for kind, pat in (("fn", r"\bfn\s+([a-z_][a-z0-9_]*)"), ("struct", r"\bstruct\s+([A-Z]\w*)"), ("enum", r"\benum\s+([A-Z]\w*)"),
                          ("const", r"\b(?:const|static)\s+([A-Z][A-Z0-9_]*)\s*:"), ("local", r"\blet\s+(?:mut\s+)?([a-z_][a-z0-9_]{3,})\b")):
            for m in re.finditer(pat, s_notest):
                out.setdefault((kind, m.group(1)), rel)
        # fields and variants: inside struct / enum bodies that do not derive serde traits
        for m in re.finditer(r"((?:#\[[^\]]*\]\s*)*)pub(?:\([a-z]+\))?\s+(struct|enum)\s+\w+(?:<[^>]*>)?\s*\{(.*?)\n\}", s_notest, re.S):
            attrs, what, body = m.groups()
            if "Serialize" in attrs or "Deserialize" in attrs:
                continue
            for ln in body.split("\n"):
                if what == "struct":
                    fm = re.match(r"\s*(?:pub(?:\([a-z]+\))?\s+)?([a-z_][a-z0-9_]*)\s*:", ln)
                    if fm:
                        out.setdefault(("field", fm.group(1)), rel)
                else:
                    vm = re.match(r"\s*([A-Z]\w*)\s*(?:[\{\(,]|$)", ln)
                    if vm:
                        out.setdefault(("variant", vm.group(1)), rel)
    return out


def new_name(kind, name):
    # an identifier that does not contain the old one (rules matching a substring of a name would otherwise not notice)
    h = hashlib.md5(name.encode()).hexdigest()[:7]
    if os.environ.get("ZV_RENAME_SUFFIX") == "1":
        return name + ("Rn" if kind in ("struct", "enum", "variant") else "_RN" if kind == "const" else "_rn")
    if kind in ("struct", "enum", "variant"):
        return "Q" + h
    if kind == "const":
        return "Q_" + h.upper()
    return "q_" + h


def apply_rename(name, new):
    def go(dst):
        n = 0
        for p in glob.glob(os.path.join(dst, "src", "**", "*.rs"), recursive=True):
            s = open(p).read()
            s2 = re.sub(r"(?<![\w\"])" + re.escape(name) + r"(?![\w\"])", new, s)
            if s2 != s:
                n += 1
                open(p, "w").write(s2)
        return None if n else "name not found"
    return go


def apply_many(pairs):
    def go(dst):
        for (name, new) in pairs:
            err = apply_rename(name, new)(dst)
            if err:
                return err
        return None
    return go


def one(job):
    kind, name, rel = job
    if kind == "combo":
        pairs = [(n, new_name(k, n)) for (k, n) in name]
        label = "+".join(n for _, n in name)
        content = ("rename combo " + " ".join(f"{a}->{b}" for a, b in pairs)).encode()
        try:
            r = selfcheck.cached_report("rename", "combo-" + hashlib.sha1(content).hexdigest()[:10], content, REPO, selfcheck.pool_extract, apply_many(pairs))
        except Exception as e:
            return (kind, label, rel, "error", {"_": str(e)[:200]})
        if r["status"] != "analysed":
            return (kind, label, rel, r["status"], {})
        return (kind, label, rel, "ok" if not r["reported"] else "ALARM", r["reported"])
    new = new_name(kind, name)
    content = f"rename {kind} {name} -> {new}".encode()
    try:
        r = selfcheck.cached_report("rename", f"{kind}-{name}", content, REPO, selfcheck.pool_extract, apply_rename(name, new))
    except Exception as e:
        return (kind, name, rel, "error", {"_": str(e)[:200]})
    if r["status"] != "analysed":
        return (kind, name, rel, r["status"], {})
    return (kind, name, rel, "ok" if not r["reported"] else "ALARM", r["reported"])


def main():
    args = sys.argv[1:]
    j = 4
    kinds = None
    combo, ncombos = 0, 40
    subs = []
    i = 0
    while i < len(args):
        if args[i] == "-j":
            j = int(args[i + 1]); i += 2
        elif args[i] == "--combo":
            combo = int(args[i + 1]); i += 2
        elif args[i] == "--ncombos":
            ncombos = int(args[i + 1]); i += 2
        elif args[i] == "--kinds":
            kinds = set(args[i + 1].split(",")); i += 2
        else:
            subs.append(args[i]); i += 1
    defs = definitions()
    jobs = [(k, n, rel) for (k, n), rel in sorted(defs.items()) if n not in STOP and (kinds is None or k in kinds) and (not subs or any(s in n for s in subs))]
    if combo:
        # random sets of `combo` identifiers of the vocabulary kinds renamed together (fixed seed: reproducible)
        import random
        rnd = random.Random(20261001)
        pool_ = [(k, n) for (k, n, rel) in jobs if k in ("struct", "enum", "variant", "field", "const")]
        jobs = [("combo", tuple(sorted(rnd.sample(pool_, combo))), "") for _ in range(ncombos)]
    print(f"{len(jobs)} renames", flush=True)
    from multiprocessing import Pool
    alarms = {}
    nc = ok = 0
    with Pool(j) as pool:
        for (kind, name, rel, verdict, rep) in pool.imap_unordered(one, jobs):
            keys = sorted({k for p in rep for k in (rep[p] if isinstance(rep[p], dict) else [])})
            print(f"{verdict:17s} {kind:8s} {name:40s} {rel:45s} {' '.join(sorted(rep)) if verdict == 'ALARM' else ''}", flush=True)
            if verdict == "ALARM":
                alarms[(kind, name)] = keys
            elif verdict == "ok":
                ok += 1
            else:
                nc += 1
    print(f"\nsummary: {ok} silent, {len(alarms)} alarming, {nc} not compiling (skipped)")
    for (kind, name), keys in sorted(alarms.items()):
        print(f"  {kind} {name}: " + ", ".join(k.split('/', 1)[1] if '/' in k else k for k in keys[:6]) + (" ..." if len(keys) > 6 else ""))


if __name__ == "__main__":
    main()
