#!/usr/bin/env python3
"""Prints the markdown tables of DESIGN.md section 10 (rules per property, variants -> checks) from the live registry."""
import json, os, sys, glob
VERIF = os.path.dirname(os.path.dirname(os.path.abspath(__file__)))
sys.path.insert(0, os.path.join(VERIF, "rules"))
import allrules
from engine import RULES
print("| rule | kind | serves | floor | statement |\n|---|---|---|---|---|")
for rid, rd in RULES.items():
    print(f"| `{rid}` | {rd.kind} | {', '.join(rd.props)} | {rd.floor if rd.floor is not None else '-'} | {rd.statement} |")
print()
print("| variant | kind | what it does | checks that must fire (key prefix) | control for |\n|---|---|---|---|---|")
for p in sorted(glob.glob(os.path.join(VERIF, "variants", "*.json"))):
    v = json.load(open(p))
    exp = "; ".join(f"{k}: {', '.join(x)}" for k, x in sorted(v.get("expect", {}).items())) or "(none: must stay silent for " + ", ".join(v.get("props", [])) + ")"
    print(f"| `{os.path.basename(p)[:-5]}` | {v.get('kind','breaking')} | {v['desc']} | {exp} | {', '.join(v.get('control_for', []))} |")
