#!/bin/bash
# usage: confirm_mutant.sh <worktree> <n>   -- independently re-confirms sub-agent mutant m<n>: applies to a clean tree, builds, runs the 38-test suite,
# runs the demo against the mutated binary (must fail) and against the clean binary (must pass). Prints one summary line.
WT="$1"; N="$2"; M="$WT/mutants"; export CARGO_NET_OFFLINE=true
cd "$WT" || exit 2
git checkout -q -- src 2>/dev/null; git clean -fdq src 2>/dev/null
if ! git apply --check "$M/m$N.diff" 2>/dev/null; then echo "$WT m$N: DIFF-DOES-NOT-APPLY"; exit 1; fi
git apply "$M/m$N.diff"
B=$(cargo build --offline 2>&1 | tail -1)
T=$(cargo test --workspace --no-fail-fast --offline 2>&1 | grep -E "^test result" | awk '{p+=$4; f+=$6} END {print p" passed "f" failed"}')
cp target/debug/zinoma /tmp/confirm-bin-$$-mut
timeout -s KILL 120 bash "$M/m${N}_demo.sh" /tmp/confirm-bin-$$-mut >/tmp/confirm-$$-mut.log 2>&1; RM=$?
git checkout -q -- src; git clean -fdq src
cargo build --offline >/dev/null 2>&1
cp target/debug/zinoma /tmp/confirm-bin-$$-clean
timeout -s KILL 120 bash "$M/m${N}_demo.sh" /tmp/confirm-bin-$$-clean >/tmp/confirm-$$-clean.log 2>&1; RC=$?
rm -f /tmp/confirm-bin-$$-mut /tmp/confirm-bin-$$-clean /tmp/confirm-$$-mut.log /tmp/confirm-$$-clean.log
echo "$WT m$N: build[$B] tests[$T] demo-on-mutant=$RM demo-on-clean=$RC"
