#!/bin/bash
# usage: confirm_benign.sh <worktree> <n>  -- re-confirms sub-agent benign change b<n>: applies to a clean tree, builds, runs the 38-test suite, and runs
# every demo of the same delivery against the changed binary (all must pass: the change keeps the behaviours the demos probe). Prints one summary line.
WT="$1"; N="$2"; M="$WT/mutants"; export CARGO_NET_OFFLINE=true
cd "$WT" || exit 2
git checkout -q -- src 2>/dev/null; git clean -fdq src 2>/dev/null
if ! git apply --check "$M/b$N.diff" 2>/dev/null; then echo "$WT b$N: DIFF-DOES-NOT-APPLY"; exit 1; fi
git apply "$M/b$N.diff"
B=$(cargo build --offline 2>&1 | tail -1 | sed 's/ target(s).*//')
T=$(cargo test --workspace --no-fail-fast --offline 2>&1 | grep -E "^test result" | awk '{p+=$4; f+=$6} END {print p" passed "f" failed"}')
cp target/debug/zinoma /tmp/confirm-bin-$$-b
R=""
for d in "$M"/m*_demo.sh; do timeout -s KILL 120 bash "$d" /tmp/confirm-bin-$$-b >/dev/null 2>&1; R="$R $(basename $d .sh)=$?"; done
git checkout -q -- src; git clean -fdq src
rm -f /tmp/confirm-bin-$$-b
echo "$WT b$N: build[$B] tests[$T] demos[$R ]"
