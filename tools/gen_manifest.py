#!/usr/bin/env python3
"""Regenerates /verif/MANIFEST.json from the rule registry and the per-property notes below."""
import json, os, sys
VERIF = os.path.dirname(os.path.dirname(os.path.abspath(__file__)))
sys.path.insert(0, os.path.join(VERIF, "rules"))
import allrules
from engine import RULES

# property -> (what the static rules decide, undecided remainder / trusted base)
NOTES = {
 "C01": ("start sites lie under the readiness predicate; the predicate's four necessary atoms; both pending sets initialised from the declared dependencies; pending-set bookkeeping (remove only on Ok, re-insert on Invalidated); every Ok construction is one of three guarded idioms; flag discipline (incl. the start marker clearing `executed`); X.output producers are scheduled as dependencies",
         "does not decide the behaviour over all graphs and interleavings, FIFO delivery (async-channel is trusted), or that the guard is re-evaluated after every message"),
 "C02": ("Skipped only under a true comparison; no record => no skip; input AND output sides compared; `both`/`all` combinators; cardinality + per-file (recorded, mtime or hash) atoms; whole-file hash loop; command success + equality; same lister for recording and comparison",
         "mtime granularity, hash collisions, listing/hashing races and all edit histories are not decided"),
 "C03": ("record saved on every completed path with inputs; None snapshot only without inputs; command-output key derives from (dir, cmd) in writer and reader; sufficient true-paths by mtime alone and by hash alone; who-may-delete-state table; state path purity; an undeclared side compares equal; cardinality compared over de-duplicated collections",
         "stable mtimes, deterministic declared commands and every project layout are not decided"),
 "C04": ("late requesters always answered (ACK-LATE), foreign-kind replies, relay forwards every message with an awaited non-lossy send, no lossy send on protocol channels, bounded-channel wait-for graph acyclic, no dropped futures, complete fan-out loops, root bookkeeping, dependencies requested for both kinds under a first-requester test of the handler's own kind, actor loops left only on termination",
         "termination itself (liveness over all interleavings), executor fairness and wait-for cycles inside libraries are not decided"),
 "C05": ("old record deleted (`?`-checked) before the script is first polled; save only in the Completed arm; Completed only under a true ExitStatus::success(); corrupt file => deleted and None; size-bounded bincode decode; the removal error reaches the delete function's result; no panic site on the state path",
         "byte-level atomicity of the write is argued (old record gone before the script, fixed-shape bincode values are prefix-free), not analysed; signal timing is not decided"),
 "C06": ("file-change arm -> notifier on every path; dependency invalidation propagates (per actor kind); notifier sets flags and tells requesters; OK idiom I1 (no stale ack); in-flight marker reset; watch relay total; missing path tolerated; recursive watch; watcher retained (over every non-empty group of paths, each path with its own resource's filter); input accessor answers for builds and services; input snapshot taken before the script",
         "convergence itself, inotify latency/coalescing and editors' rename-replace are not decided"),
 "C07": ("non-zero status => Err; spawn failure propagated; failure branch reports and never acknowledges; one-shot relay returns the error, watch relay continues; shutdown always precedes the `?` on the engine result in main",
         "that no dependent can start through another route follows from C01/C04 rules and is not re-proved; interleavings are not enumerated"),
 "C08": ("who may set to_execute; notifier only from file-change / Invalidated handlers; watchers only in watch mode; start marks execution; only the resolver's map reaches engine, state cleaner and output cleaner; one actor per id",
         "exact-once as a count over all schedules needs liveness, which is not decided"),
 "C09": ("resolver skeleton: shared targets resolved once; recursion bounded by a consuming removal or an ancestor test; full dependency list visited; `.output` only of builds; unknown names are errors; resolve-before-effects in main and effect-free validation",
         "that the DFS computes exactly the closure on every graph (algorithmic correctness) is not decided"),
 "C10": ("shutdown on every path of main, to all handles, joined; every actor leaves its loop on termination; every process wait is raced against cancellation or preceded by kill; service stopped on every exit path; spawned shells owned; single in-flight pre-emptible build; signal wired; no sync blocking (incl. nested block_on in closures); the relay owns the receiver or a stored handle is dropped before the termination messages; wait-for acyclicity",
         "the numerical bound on exit latency, cmd_stdout helper processes, grandchildren and OS signal delivery are not decided"),
 "C11": ("provenance of `actual` per idiom; keep-alive set filled only under Ok{Service, actual}; final wait guarded by that set and reached after every successful run with a requested service; stop awaited before spawn; single process slot",
         "service supervision (a service exiting by itself) and timing are not decided"),
 "C12": ("closed table of deletion sites in four roles; deleted paths derive from outputs only; extension filter respected; is_file/is_dir guards; everything destructive under --clean with the right scope, and each part of --clean present; work-dir path; links not followed",
         "symlink semantics of remove_dir_all/is_file and overlapping declarations are not decided"),
 "C13": ("producer outputs appended (files and commands) to the consumer input for every X.output; resources bound to the declaring project's directory; key injectivity; watcher and lister range over the whole input",
         "re-run on every edit history is not decided"),
 "C14": ("deny_unknown_fields visible as absence of `__ignore` in every derive-generated field enum of the schema; discriminating keys required; name checks; import name checks and recursion cut; project-name uniqueness test; frozen table of justified panic sites on the configuration path; validate-before-effects",
         "totality of serde_yaml/regex/clap on all byte strings is trusted, not decided"),
 "C15": ("one lister; lister and watcher share one extension predicate and one work-dir constant; predicate = no filter or file-name suffix (lossy, never fallible, name conversion); each path keeps its own resource's filter; regular files only, work dir pruned (an unreadable name is not the work dir), walk errors dropped; extension normalisation; no panic site",
         "string semantics on all names and symlink classification are not decided"),
 "C16": ("callback filter atoms (not temporary, not in work dir, matches extensions); notify only when relevant; callback panic-free and non-blocking; temporaries `*~`, `.*.swp`, `.*.swx` recognised; own writes confined to the work dir",
         "which events inotify delivers, rename sequences and later-created paths are not decided"),
 "C17": ("one spawned task per actor; no lock guard held across await/process wait; no synchronous blocking in async code; relay does no slow work; roots requested up front; wait-for acyclicity",
         "actual overlap in time, executor thread count and fairness are not decided"),
 "C18": ("state path is a pure function of (declaring project dir, target id); state module touches only such paths; project dirs canonicalised; resources bound to the declarer; derived Eq/Hash over both id fields",
         "sequences of invocations and aliasing through hard links / bind mounts are not decided"),
 "C19": ("bare -> current project, qualified -> first segment, more segments -> error; current project is the root name in main and the declaring target's project inside files; offered names = qualified ids + bare root names; one identity for both spellings (also in the cycle test); name-resolving wrappers summarised and judged where they are used",
         "clap's matching of possible values is trusted"),
 "C20": ("aggregate requests dependencies with the incoming kind; forwards Ok under an empty pending set with the incoming kind; answers late requesters at once; `actual` = some dependency actual; forwards Invalidated",
         "the equivalence of two invocations (a relation between runs) is not decided"),
}

props = [json.loads(l) for l in open(os.path.join(VERIF, "properties.jsonl"))]
checks = []
for p in props:
    pid = p["id"]
    rules = [rid for rid, rd in RULES.items() if pid in rd.props]
    decided, remainder = NOTES[pid]
    checks.append({
        "property_id": pid,
        "quick_cmd": f"./check {pid} --tier quick",
        "thorough_cmd": f"./check {pid} --tier thorough",
        "evidence_file": f"/verif/evidence/{pid}.json",
        "replay_cmd_template": "./check " + pid + " --replay {path}",
        "engine": "zfacts+rules",
        "technique": "static analysis: repository-specific rules over rustc mir_built (dominance/regions, necessary atoms by path enumeration, provenance, who-may-call tables, call-graph effects, task/channel wait-for graph)",
        "level_claimed": {
            "category": "other",
            "text": f"Conformance of the type-checked program to {len(rules)} structural rules that are necessary conditions of {pid}: {decided}. Each rule reports a specific construct (file:line, function, path) when violated; quick additionally runs the positive controls of the zero-count rules, thorough adds the release configuration and every seeded variant / benign twin of the property.",
            "design_ref": f"DESIGN.md section 4 ({pid}) and section 10",
        },
        "level_note": f"Structural necessary conditions only: {remainder}. Trusted: rustc's MIR construction and callee resolution, the zfacts extractor (floors asserted), documented semantics of async-channel/async-process/walkdir/notify/bincode/serde/clap. Rules: " + ", ".join(rules),
    })

m = {
    "version": 1,
    "setup_cmd": "./setup.sh",
    "hooks": {"guard": "zinoma_verif", "enable": "none: static analysis needs no instrumentation; checks run the zfacts rustc driver (RUSTC_WORKSPACE_WRAPPER under cargo +nightly check) over /repo's working tree",
              "baseline_off_cmd": "cd /repo && cargo test --workspace --no-fail-fast --offline", "source_commits": [], "add_only": True},
    "engines": [
        {"name": "zfacts", "path": "/verif/extractor", "serves_properties": [p["id"] for p in props], "kind_free_text": "rustc_private driver capturing mir_built of every body of crate zinoma (resolved callees, ADTs, impls) as JSON facts"},
        {"name": "rules", "path": "/verif/rules", "serves_properties": [p["id"] for p in props], "kind_free_text": "python rule engine: CFG/dominators/regions, await/select/?-recognisers, provenance, path enumeration, call graph, roles, %d rules" % len(RULES)},
        {"name": "selfcheck", "path": "/verif/variants", "serves_properties": [p["id"] for p in props], "kind_free_text": "seeded breaking variants, benign twins and positive controls applied to a scratch copy of the current /repo"},
    ],
    "checks": checks,
    "notes": "All 20 properties are claimed at level `other` (structural necessary conditions decided statically); none is decided behaviourally. Eight genuine defects (D1-D8) found by these rules were repaired in /repo with `fix:` commits (see known_findings.txt); the old code of each is kept as a seeded variant that must keep firing. Self-validation corpora: variants/ (seeded variants, benign twins, positive controls), seeded/ (240 independent sub-agent mutants from nine rounds, all reported by the property they break; 40 of them with a behaviour-preserving twin, 31 silent and 9 listed in twins_known.txt), benign/ (222 independent refactorings, feature additions, small and clippy-style edits and renames: 206 silent, 16 known alarms listed in twins_known.txt); tools/run_suite.py runs them all.",
    "not_applicable": [],
}
json.dump(m, open(os.path.join(VERIF, "MANIFEST.json"), "w"), indent=1)
print("MANIFEST.json:", len(checks), "checks,", len(RULES), "rules")
for p in props:
    print(" ", p["id"], len([rid for rid, rd in RULES.items() if p["id"] in rd.props]), "rules")
