#!/usr/bin/env python3
"""usage: tools/run_seeded.py [name-substr ...] -- applies every independent mutant in /verif/seeded/*/patch.diff to a scratch copy of the current /repo and checks
that the check of the property it was aimed at reports it. Exit 0 if all are caught."""
import sys, os, glob, json, subprocess, shutil
VERIF = os.path.dirname(os.path.dirname(os.path.abspath(__file__)))
sys.path.insert(0, os.path.join(VERIF, "rules"))
import selfcheck


def extract(repo, out, crate="zinoma", extra=()):
    p = subprocess.run([os.path.join(VERIF, "tools", "extract.sh"), repo, out, crate] + list(extra), stdout=subprocess.PIPE, stderr=subprocess.PIPE, text=True)
    return p.returncode == 0


pats = [a for a in sys.argv[1:] if not a.startswith("-")]
missed = 0
for d in sorted(glob.glob(os.path.join(VERIF, "seeded", "*"))):
    nm = os.path.basename(d)
    if pats and not any(p in nm for p in pats):
        continue
    meta = json.load(open(os.path.join(d, "meta.json")))
    prop = meta["breaks_property"]
    tmp, dst = selfcheck.scratch_copy("/repo")
    try:
        p = subprocess.run(["patch", "-p1", "-s", "-d", dst, "-i", os.path.join(d, "patch.diff")], stdout=subprocess.PIPE, stderr=subprocess.STDOUT, text=True)
        if p.returncode != 0:
            print(f"{nm:10s} PATCH-FAILED")
            continue
        fp = os.path.join(tmp, "facts.json")
        if not extract(dst, fp):
            print(f"{nm:10s} DOES-NOT-COMPILE")
            continue
        rep = selfcheck.analyse(fp)
        ok = prop in rep and rep[prop]
        if not ok:
            missed += 1
        print(f"{nm:10s} {'caught' if ok else 'MISSED'}  own={sorted(rep.get(prop, {}))[:3]} others={sorted(k for k in rep if k != prop)}")
    finally:
        shutil.rmtree(tmp, ignore_errors=True)
print("missed:", missed)
sys.exit(1 if missed else 0)
