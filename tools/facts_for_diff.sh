#!/bin/bash
# usage: facts_for_diff.sh <diff> <out.json>  -- scratch copy of /repo + diff -> facts file (scratch removed)
set -e
D=$(mktemp -d /tmp/zv-dbg-XXXX); mkdir $D/repo; rsync -a --exclude target --exclude .git /repo/ $D/repo/
patch -p1 -s -d $D/repo -i "$(realpath "$1")"
"$(dirname "$0")/extract.sh" $D/repo "$2"; RC=$?
rm -rf $D; exit $RC
