#!/usr/bin/env python3
"""usage: tools/run_suite.py [variants] [seeded] [benign] [twins] [-j N] [-v]
Runs the self-validation corpora against the current /repo in parallel (each worker has its own cargo target directory under .cache/) and prints one
line per item plus a summary. Results are cached (selfcheck.cached_report), so a second run after an unrelated edit is fast.
  variants: variants/*.json  (breaking variants must be reported under their expected properties only; benign twins must be silent)
  seeded:   seeded/*/patch.diff (independent mutants: the property they break must report them)
  benign:   benign/*.diff (independent behaviour-preserving refactorings: nothing may fire)
  twins:    seeded/*/benign_twin.diff (the repaired version of a refactoring-disguised mutant: nothing may fire; known exceptions listed in twins_known.txt)"""
import sys, os, glob, json, shutil, subprocess
from multiprocessing import Pool, current_process
VERIF = os.path.dirname(os.path.dirname(os.path.abspath(__file__)))
sys.path.insert(0, os.path.join(VERIF, "rules"))
import selfcheck


def extract(repo, out, crate="zinoma", extra=()):
    ident = current_process()._identity
    w = ident[0] if ident else 0
    tgt = os.path.join(VERIF, ".cache", f"target-w{w}")
    if not os.path.exists(tgt) and os.path.exists(os.path.join(VERIF, ".cache", "target")):
        shutil.copytree(os.path.join(VERIF, ".cache", "target"), tgt, symlinks=True)
    p = subprocess.run([os.path.join(VERIF, "tools", "extract.sh"), repo, out, crate] + list(extra), env=dict(os.environ, ZF_TARGET_DIR=tgt), stdout=subprocess.PIPE, stderr=subprocess.PIPE, text=True)
    return p.returncode == 0


def job(item):
    kind, name, path = item
    try:
        if kind == "variants":
            v = json.load(open(path)); v["name"] = name
            r = selfcheck.run_variant(v, "/repo", extract)
            return (kind, name, r["status"], r.get("detail", ""), r.get("reported", {}))
        r = selfcheck.cached_report(kind, name, open(path, "rb").read(), "/repo", extract, selfcheck.apply_patch(path))
        rep = {p: sorted(k) for p, k in r["reported"].items()}
        if r["status"] != "analysed":
            return (kind, name, r["status"], r.get("detail", ""), rep)
        if kind == "seeded":
            prop = json.load(open(os.path.join(os.path.dirname(path), "meta.json")))["breaks_property"]
            return (kind, name, "ok" if rep.get(prop) else "missed", f"own={prop}", rep)
        return (kind, name, "ok" if not rep else "false-alarm", "", rep)
    except Exception as e:
        import traceback
        return (kind, name, "error", traceback.format_exc()[-400:], {})


if __name__ == "__main__":
    argv = sys.argv[1:]
    if "-j" in argv:
        i = argv.index("-j")
        del argv[i:i + 2]
    args = [a for a in argv if not a.startswith("-")]
    kinds = [a for a in args if a in ("variants", "seeded", "benign", "twins")] or ["variants", "seeded", "benign", "twins"]
    pats = [a for a in args if a not in ("variants", "seeded", "benign", "twins")]
    jobs = int(sys.argv[sys.argv.index("-j") + 1]) if "-j" in sys.argv else 6
    items = []
    if "variants" in kinds:
        items += [("variants", os.path.basename(p)[:-5], p) for p in sorted(glob.glob(os.path.join(VERIF, "variants", "*.json")))]
    if "seeded" in kinds:
        items += [("seeded", os.path.basename(os.path.dirname(p)), p) for p in sorted(glob.glob(os.path.join(VERIF, "seeded", "*", "patch.diff")))]
    if "benign" in kinds:
        items += [("benign", os.path.basename(p)[:-5], p) for p in sorted(glob.glob(os.path.join(VERIF, "benign", "*.diff")))]
    if "twins" in kinds:
        items += [("twins", os.path.basename(os.path.dirname(p)), p) for p in sorted(glob.glob(os.path.join(VERIF, "seeded", "*", "benign_twin.diff")))]
    if pats:
        items = [i for i in items if any(p in i[1] for p in pats)]
    known = set()
    kp = os.path.join(VERIF, "twins_known.txt")
    if os.path.exists(kp):
        known = {l.split()[0] for l in open(kp) if l.strip() and not l.startswith("#")}
    bad = 0
    with Pool(jobs) as pool:
        for (kind, name, st, detail, rep) in pool.imap_unordered(job, items):
            flag = "ok  "
            if st != "ok":
                if kind in ("twins", "benign") and name in known and st == "false-alarm":
                    flag = "known"
                else:
                    flag = "FAIL"
                    bad += 1
            print(f"{flag} {kind:8s} {name:45s} {st:14s} {detail[:160]} {' '.join(sorted(rep)) if kind != 'variants' or st != 'ok' else ''}", flush=True)
            if "-v" in sys.argv and st != "ok":
                for p in sorted(rep):
                    print("        ", p, [k[:100] for k in rep[p]][:4])
    print("failures:", bad)
    sys.exit(1 if bad else 0)
