#!/bin/sh
# RUSTC_WRAPPER used for the nightly `cargo check` of zinoma's dependency graph.
# rustix 0.37 auto-detects nightly and then uses rustc attributes that no longer exist on
# this nightly; force its stable code path, for that package only.
if [ "$CARGO_PKG_NAME" = "rustix" ]; then export RUSTC_BOOTSTRAP=-1; fi
exec "$@"
